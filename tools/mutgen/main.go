// mutgen lists small source mutations (as a mutation-testing tool would make them) for Go files:
// relational and logical operator swaps, arithmetic swaps, integer constants +-1, dropped negations,
// negated conditions, flipped boolean literals and deleted call/inc-dec/assignment statements.
// Output: one JSON object per line {file, start, end, old, new, line, kind, func}. Offsets are byte
// offsets into the file; applying a mutant replaces [start,end) by new.
package main

import (
	"encoding/json"
	"fmt"
	"go/ast"
	"go/parser"
	"go/token"
	"os"
	"strconv"
)

type mutant struct {
	File  string `json:"file"`
	Start int    `json:"start"`
	End   int    `json:"end"`
	Old   string `json:"old"`
	New   string `json:"new"`
	Line  int    `json:"line"`
	Kind  string `json:"kind"`
	Func  string `json:"func"`
}

var swaps = map[token.Token][]string{
	token.LSS: {"<=", ">="}, token.LEQ: {"<", "=="}, token.GTR: {">=", "<="}, token.GEQ: {">", "=="},
	token.EQL: {"!="}, token.NEQ: {"=="}, token.LAND: {"||"}, token.LOR: {"&&"},
	token.ADD: {"-"}, token.SUB: {"+"}, token.MUL: {"/"}, token.QUO: {"*"}, token.REM: {"/"},
}

func main() {
	// usage: mutgen [-set2] <root> <files…>   (-set2: the second operator set instead of the first)
	args := os.Args[1:]
	set2 := false
	if len(args) > 0 && args[0] == "-set2" {
		set2, args = true, args[1:]
	}
	root := args[0]
	enc := json.NewEncoder(os.Stdout)
	for _, rel := range args[1:] {
		path := root + "/" + rel
		src, err := os.ReadFile(path)
		if err != nil {
			fmt.Fprintln(os.Stderr, err)
			continue
		}
		fset := token.NewFileSet()
		f, err := parser.ParseFile(fset, path, src, 0)
		if err != nil {
			fmt.Fprintln(os.Stderr, err)
			continue
		}
		off := func(p token.Pos) int { return fset.Position(p).Offset }
		emit := func(fn string, start, end token.Pos, repl, kind string) {
			s, e := off(start), off(end)
			enc.Encode(mutant{File: rel, Start: s, End: e, Old: string(src[s:e]), New: repl, Line: fset.Position(start).Line, Kind: kind, Func: fn})
		}
		for _, decl := range f.Decls {
			fd, ok := decl.(*ast.FuncDecl)
			if !ok || fd.Body == nil {
				continue
			}
			name := fd.Name.Name
			if fd.Recv != nil && len(fd.Recv.List) > 0 {
				name = string(src[off(fd.Recv.List[0].Type.Pos()):off(fd.Recv.List[0].Type.End())]) + "." + name
			}
			if set2 {
				// second operator set: conditions forced to true/false, error returns dropped,
				// slice bounds shifted, else branches removed, loop bodies skipped after one round
				ast.Inspect(fd.Body, func(n ast.Node) bool {
					switch x := n.(type) {
					case *ast.IfStmt:
						emit(name, x.Cond.Pos(), x.Cond.End(), "true", "if-true")
						emit(name, x.Cond.Pos(), x.Cond.End(), "false", "if-false")
						if blk, ok := x.Else.(*ast.BlockStmt); ok && len(blk.List) > 0 {
							emit(name, blk.Lbrace, blk.Rbrace+1, "{}", "empty-else")
						}
					case *ast.ReturnStmt:
						if len(x.Results) >= 1 {
							last := x.Results[len(x.Results)-1]
							if id, ok := last.(*ast.Ident); ok && id.Name != "nil" && (id.Name == "err" || len(id.Name) > 3 && id.Name[len(id.Name)-3:] == "Err") {
								emit(name, last.Pos(), last.End(), "nil", "return-nil-error")
							}
						}
					case *ast.SliceExpr:
						if x.Low != nil {
							if _, lit := x.Low.(*ast.BasicLit); !lit {
								t := string(src[off(x.Low.Pos()):off(x.Low.End())])
								emit(name, x.Low.Pos(), x.Low.End(), "("+t+")+1", "slice-low+1")
							}
						}
						if x.High != nil {
							if _, lit := x.High.(*ast.BasicLit); !lit {
								t := string(src[off(x.High.Pos()):off(x.High.End())])
								emit(name, x.High.Pos(), x.High.End(), "("+t+")-1", "slice-high-1")
							}
						}
					case *ast.IndexExpr:
						if _, lit := x.Index.(*ast.BasicLit); !lit {
							if _, isIdent := x.Index.(*ast.Ident); isIdent {
								break // often a map key or a type parameter: compile errors
							}
							if be, ok := x.Index.(*ast.BinaryExpr); ok && (be.Op == token.ADD || be.Op == token.SUB) {
								t := string(src[off(x.Index.Pos()):off(x.Index.End())])
								emit(name, x.Index.Pos(), x.Index.End(), "("+t+")-1", "index-1")
							}
						}
					case *ast.RangeStmt:
						if len(x.Body.List) > 0 {
							emit(name, x.Body.Rbrace, x.Body.Rbrace, "; break ", "range-once")
						}
					case *ast.CallExpr:
						// swap the first two arguments when they are both plain identifiers
						if len(x.Args) >= 2 {
							a, okA := x.Args[0].(*ast.Ident)
							b, okB := x.Args[1].(*ast.Ident)
							if okA && okB && a.Name != b.Name && a.Name != "nil" && b.Name != "nil" {
								emit(name, x.Args[0].Pos(), x.Args[1].End(), b.Name+", "+a.Name, "swap-args")
							}
						}
					}
					return true
				})
				continue
			}
			ast.Inspect(fd.Body, func(n ast.Node) bool {
				switch x := n.(type) {
				case *ast.BinaryExpr:
					if x.Op == token.ADD {
						// string concatenation: skip when an operand is a string literal
						if l, ok := x.X.(*ast.BasicLit); ok && l.Kind == token.STRING {
							return true
						}
						if l, ok := x.Y.(*ast.BasicLit); ok && l.Kind == token.STRING {
							return true
						}
					}
					for _, r := range swaps[x.Op] {
						emit(name, x.OpPos, x.OpPos+token.Pos(len(x.Op.String())), r, "binop")
					}
				case *ast.UnaryExpr:
					if x.Op == token.NOT {
						emit(name, x.OpPos, x.OpPos+1, "", "drop-not")
					}
				case *ast.BasicLit:
					if x.Kind == token.INT {
						if v, err := strconv.ParseInt(x.Value, 0, 64); err == nil && v >= 0 && v <= 10000 {
							emit(name, x.Pos(), x.End(), strconv.FormatInt(v+1, 10), "int+1")
							if v > 0 {
								emit(name, x.Pos(), x.End(), strconv.FormatInt(v-1, 10), "int-1")
							}
						}
					}
				case *ast.Ident:
					if x.Name == "true" {
						emit(name, x.Pos(), x.End(), "false", "bool")
					} else if x.Name == "false" {
						emit(name, x.Pos(), x.End(), "true", "bool")
					}
				case *ast.IfStmt:
					c := string(src[off(x.Cond.Pos()):off(x.Cond.End())])
					emit(name, x.Cond.Pos(), x.Cond.End(), "!("+c+")", "negate-if")
				case *ast.ForStmt:
					if x.Cond != nil {
						// off-by-one loops are covered by binop; nothing more
					}
				case *ast.BlockStmt:
					for _, st := range x.List {
						switch s := st.(type) {
						case *ast.ExprStmt:
							if _, ok := s.X.(*ast.CallExpr); ok {
								emit(name, s.Pos(), s.End(), "{}", "del-call")
							}
						case *ast.IncDecStmt:
							emit(name, s.Pos(), s.End(), "{}", "del-incdec")
						case *ast.AssignStmt:
							if s.Tok != token.DEFINE {
								emit(name, s.Pos(), s.End(), "{}", "del-assign")
							}
						case *ast.BranchStmt:
							if s.Tok == token.CONTINUE || s.Tok == token.BREAK {
								emit(name, s.Pos(), s.End(), "{}", "del-"+s.Tok.String())
							}
						}
					}
				}
				return true
			})
		}
	}
}
