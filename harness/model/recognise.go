package model

import (
	"fmt"
	"strings"
	"unicode/utf8"
)

// Verdict of the reference recogniser.
type Verdict int

const (
	Valid Verdict = iota
	Invalid
	Unsure
)

func (v Verdict) String() string { return [...]string{"valid", "invalid", "unsure"}[v] }

// Recognition is the result of reading a text with the reference recogniser.
type Recognition struct {
	Verdict Verdict
	Doc     Doc    // for Valid
	Line    int    // for Invalid: 0-based index of the first non-conforming line
	Reason  string // for Invalid and Unsure
}

func unsure(reason string) Recognition { return Recognition{Verdict: Unsure, Reason: reason} }
func invalid(line int, reason string) Recognition {
	return Recognition{Verdict: Invalid, Line: line, Reason: reason}
}

var recIndents = []string{"    ", "   ", "  ", "\t"}

// Recognise reads a text according to Specification.md. It is written independently of klog
// (own line splitter, hand-written scanners, a per-record state machine). Wherever the
// specification is silent, or klog's documented behaviour deliberately differs from a literal
// reading, the verdict is Unsure and nothing is asserted:
//   - invalid UTF-8, control characters (incl. lone CR), byte-order mark;
//   - blank lines that contain Zs characters other than U+0020;
//   - a tab where the specification says "space" (before a should-total or an entry summary),
//     blanks inside the should-total parentheses, trailing blanks after the headline;
//   - numbers that do not fit into 63 bits.
func Recognise(text string) Recognition {
	if !utf8.ValidString(text) {
		return unsure("invalid UTF-8")
	}
	for _, r := range text {
		if (r < 0x20 && r != '\n' && r != '\r' && r != '\t') || r == 0x7f || r == 0xfeff || r == 0x85 || r == 0x2028 || r == 0x2029 {
			return unsure("control character, line separator or byte-order mark")
		}
	}
	lines := SplitLines(text)
	for _, l := range lines {
		if strings.ContainsRune(l.Text, '\r') {
			return unsure("lone carriage return")
		}
	}
	doc := Doc{}
	i := 0
	for i < len(lines) {
		// skip blank lines
		if AllBlank(lines[i].Text) {
			if !IsBlankST(lines[i].Text) {
				return unsure("blank line made of Zs characters other than U+0020")
			}
			i++
			continue
		}
		// a block: consecutive non-blank lines
		j := i
		for j < len(lines) && !AllBlank(lines[j].Text) {
			j++
		}
		rec, res := recogniseRecord(lines[i:j], i)
		if res.Verdict != Valid {
			return res
		}
		doc.Records = append(doc.Records, rec)
		i = j
	}
	return Recognition{Verdict: Valid, Doc: doc}
}

func firstBlankIndex(s string) int {
	for i, r := range s {
		if r == ' ' || r == '\t' {
			return i
		}
	}
	return len(s)
}

func recogniseRecord(lines []Line, base int) (Record, Recognition) {
	rec := Record{}
	ok := Recognition{Verdict: Valid}
	// ---- headline
	head := lines[0].Text
	if StartsWithBlank(head) {
		return rec, invalid(base, "the first line of a record must start with a date")
	}
	dEnd := firstBlankIndex(head)
	d, dok := ScanDate(head[:dEnd])
	if !dok {
		return rec, invalid(base, "not a date")
	}
	rec.Date = d
	rest := head[dEnd:]
	if rest != "" {
		gapEnd := 0
		for gapEnd < len(rest) && (rest[gapEnd] == ' ' || rest[gapEnd] == '\t') {
			gapEnd++
		}
		gap, after := rest[:gapEnd], rest[gapEnd:]
		if after == "" {
			return rec, unsure("trailing blanks after the headline")
		}
		trimmed := strings.TrimRight(after, " \t")
		if strings.HasPrefix(trimmed, "(") && strings.HasSuffix(trimmed, "!)") {
			inner := trimmed[1 : len(trimmed)-2]
			dur, durOK, fits := ScanDuration(inner)
			switch {
			case durOK && !fits:
				return rec, unsure("should-total does not fit into 63 bits")
			case durOK:
				if strings.ContainsRune(gap, '\t') {
					return rec, unsure("tab between date and should-total")
				}
				if trimmed != after {
					return rec, unsure("trailing blanks after the headline")
				}
				rec.Should = &dur
				rec.HeadGap = gap
			case strings.ContainsAny(inner, " \t"):
				return rec, unsure("blanks inside the should-total parentheses")
			default:
				return rec, invalid(base, "malformed should-total")
			}
		} else if strings.HasPrefix(trimmed, "(") && strings.ContainsAny(trimmed, " \t") {
			// e.g. `(8h! )`: klog tolerates blanks around the value
			return rec, unsure("blanks inside the should-total parentheses")
		} else {
			return rec, invalid(base, "text after the date that is not a should-total")
		}
	}
	// ---- record summary
	k := 1
	for k < len(lines) {
		t := lines[k].Text
		if StartsWithBlank(t) {
			break
		}
		rec.Summary = append(rec.Summary, Text(t))
		k++
	}
	if k == len(lines) {
		return rec, ok
	}
	// ---- entries
	ind := ""
	for _, c := range recIndents {
		if strings.HasPrefix(lines[k].Text, c) {
			ind = c
			break
		}
	}
	if ind == "" {
		return rec, invalid(base+k, "line starts with a blank character but is not indented")
	}
	haveEntry := false
	for ; k < len(lines); k++ {
		t := lines[k].Text
		if !strings.HasPrefix(t, ind) {
			return rec, invalid(base+k, "line is not indented with the record's indentation")
		}
		body := t[len(ind):]
		if strings.HasPrefix(body, ind) {
			// second level: continuation of an entry summary
			cont := body[len(ind):]
			if !haveEntry {
				return rec, invalid(base+k, "second indentation level without a preceding entry")
			}
			if AllBlank(cont) {
				return rec, invalid(base+k, "entry summary line consists of blank characters only")
			}
			e := &rec.Entries[len(rec.Entries)-1]
			e.Summary = append(e.Summary, Text(cont))
			continue
		}
		if body == "" || StartsWithBlank(body) {
			return rec, invalid(base+k, "indentation is neither one nor two levels")
		}
		e, res := recogniseEntry(body, base+k)
		if res.Verdict != Valid {
			return rec, res
		}
		if e.Kind == KOpen && rec.OpenIndex() >= 0 {
			return rec, invalid(base+k, "second open range in a record")
		}
		rec.Entries = append(rec.Entries, e)
		haveEntry = true
	}
	return rec, ok
}

func recogniseEntry(body string, line int) (Entry, Recognition) {
	ok := Recognition{Verdict: Valid}
	e := Entry{}
	summaryOf := func(rest string) ([]Text, *Recognition) {
		if rest == "" {
			return Texts(""), nil
		}
		if rest[0] == '\t' {
			r := unsure("tab between entry value and summary")
			return nil, &r
		}
		if rest[0] != ' ' {
			r := invalid(line, "text glued to the entry value")
			return nil, &r
		}
		return Texts(rest[1:]), nil
	}
	// duration?
	tokEnd := firstBlankIndex(body)
	if d, dok, fits := ScanDuration(body[:tokEnd]); dok {
		if !fits {
			return e, unsure("duration does not fit into 63 bits")
		}
		e.Kind, e.Dur = KDuration, d
		s, bad := summaryOf(body[tokEnd:])
		if bad != nil {
			return e, *bad
		}
		e.Summary = s
		return e, ok
	}
	// range: start [spaces] - [spaces] end|?+
	sEnd := strings.IndexAny(body, "- ")
	if sEnd <= 0 {
		return e, invalid(line, "neither a duration nor a range")
	}
	start, sok := ScanTime(body[:sEnd])
	if !sok {
		return e, invalid(line, "neither a duration nor a time")
	}
	p := sEnd
	for p < len(body) && body[p] == ' ' {
		p++
	}
	dashL := body[sEnd:p]
	if p >= len(body) || body[p] != '-' {
		return e, invalid(line, "missing dash in range")
	}
	p++
	q := p
	for q < len(body) && body[q] == ' ' {
		q++
	}
	dashR := body[p:q]
	endTokEnd := q + firstBlankIndex(body[q:])
	tok := body[q:endTokEnd]
	if tok == "" {
		return e, invalid(line, "missing end of range")
	}
	e.Start, e.DashL, e.DashR = start, dashL, dashR
	if tok[0] == '?' {
		if strings.Trim(tok, "?") != "" {
			return e, invalid(line, "malformed placeholder")
		}
		e.Kind, e.QMarks = KOpen, len(tok)
	} else {
		end, eok := ScanTime(tok)
		if !eok {
			return e, invalid(line, "malformed end time")
		}
		if end.Off < start.Off {
			return e, invalid(line, "range end before start")
		}
		e.Kind, e.End = KRange, end
	}
	s, bad := summaryOf(body[endTokEnd:])
	if bad != nil {
		return e, *bad
	}
	e.Summary = s
	return e, ok
}

func (r Recognition) String() string {
	switch r.Verdict {
	case Invalid:
		return fmt.Sprintf("invalid (line %d: %s)", r.Line+1, r.Reason)
	case Unsure:
		return "unsure (" + r.Reason + ")"
	}
	return fmt.Sprintf("valid (%d records)", len(r.Doc.Records))
}
