package model

import "strings"

// Layout holds every formatting choice that does not change what a document denotes.
type Layout struct {
	Indent   []string   // per record: "    ", "   ", "  " or "\t" (cyclic)
	EOLMode  int        // 0 = LF, 1 = CRLF, 2 = per record (EOLBits), 3 = per line (EOLBits)
	EOLBits  []bool     // true = CRLF (cyclic)
	Blanks   [][]string // Blanks[i] = blank lines before record i; Blanks[n] = trailing; missing = default
	FinalEOL bool       // whether the last line of the text has a line ending
}

const (
	RoleBlank = "blank"
	RoleHead  = "head"
	RoleRSum  = "rsum"
	RoleEntry = "entry"
	RoleECont = "econt"
)

// Line is one physical line: text plus ending ("", "\n" or "\r\n").
type Line struct {
	Text string
	EOL  string
}

func (l Line) Original() string { return l.Text + l.EOL }

// LineInfo is a rendered line together with its role in the document.
type LineInfo struct {
	Line
	Role  string
	Rec   int // index of the record the line belongs to (for blank lines: the next record, n for trailing)
	Entry int // entry index, or -1
}

func pick[T any](xs []T, i int, def T) T {
	if len(xs) == 0 {
		return def
	}
	return xs[i%len(xs)]
}

func (l Layout) IndentOf(rec int) string { return pick(l.Indent, rec, "    ") }

func (l Layout) blanksBefore(i, n int) []string {
	if i < len(l.Blanks) && l.Blanks[i] != nil {
		return l.Blanks[i]
	}
	if i == 0 || i == n {
		return nil
	}
	return []string{""}
}

// Render produces the text of a document under a layout, with a line table.
func Render(d Doc, l Layout) (string, []LineInfo) {
	var lines []LineInfo
	n := len(d.Records)
	add := func(text, role string, rec, entry int) {
		lines = append(lines, LineInfo{Line{text, ""}, role, rec, entry})
	}
	for ri, r := range d.Records {
		bl := l.blanksBefore(ri, n)
		if ri > 0 && len(bl) == 0 {
			bl = []string{""} // records must be separated
		}
		for _, b := range bl {
			add(b, RoleBlank, ri, -1)
		}
		head := r.Date.Lit()
		if r.Should != nil {
			gap := r.HeadGap
			if gap == "" {
				gap = " "
			}
			head += gap + "(" + r.Should.Lit + "!)"
		}
		add(head, RoleHead, ri, -1)
		for _, s := range r.Summary {
			add(string(s), RoleRSum, ri, -1)
		}
		ind := l.IndentOf(ri)
		for ei, e := range r.Entries {
			text := ind + e.ValueLit()
			if len(e.Summary) > 0 && e.Summary[0] != "" {
				sep := e.Sep
				if sep == "" {
					sep = " "
				}
				text += sep + string(e.Summary[0])
			}
			add(text, RoleEntry, ri, ei)
			for k := 1; k < len(e.Summary); k++ {
				add(ind+ind+string(e.Summary[k]), RoleECont, ri, ei)
			}
		}
	}
	for _, b := range l.blanksBefore(n, n) {
		add(b, RoleBlank, n, -1)
	}
	// Line endings.
	for i := range lines {
		crlf := false
		switch l.EOLMode {
		case 1:
			crlf = true
		case 2:
			crlf = pick(l.EOLBits, lines[i].Rec, false)
		case 3:
			crlf = pick(l.EOLBits, i, false)
		}
		if crlf {
			lines[i].EOL = "\r\n"
		} else {
			lines[i].EOL = "\n"
		}
	}
	if len(lines) > 0 && !l.FinalEOL {
		last := len(lines) - 1
		lines[last].EOL = ""
		if lines[last].Text == "" {
			lines = lines[:last] // an empty line without ending does not exist
		}
	}
	var sb strings.Builder
	for _, ln := range lines {
		sb.WriteString(ln.Text)
		sb.WriteString(ln.EOL)
	}
	return sb.String(), lines
}

// SplitLines is the harness's own line splitter: a line ends at LF; a CR directly before
// that LF belongs to the line ending. A final line without LF has an empty ending.
func SplitLines(text string) []Line {
	var out []Line
	start := 0
	for i := 0; i < len(text); i++ {
		if text[i] != '\n' {
			continue
		}
		end := i
		eol := "\n"
		if end > start && text[end-1] == '\r' {
			end--
			eol = "\r\n"
		}
		out = append(out, Line{text[start:end], eol})
		start = i + 1
	}
	if start < len(text) {
		out = append(out, Line{text[start:], ""})
	}
	return out
}

func JoinLines(ls []Line) string {
	var sb strings.Builder
	for _, l := range ls {
		sb.WriteString(l.Text)
		sb.WriteString(l.EOL)
	}
	return sb.String()
}

// IsBlankST says whether a line consists of spaces and tabs only (or is empty).
func IsBlankST(s string) bool {
	for i := 0; i < len(s); i++ {
		if s[i] != ' ' && s[i] != '\t' {
			return false
		}
	}
	return true
}

// CanonRender is the canonical form `klog print` is specified to produce: four-space
// indentation, LF endings, one blank line between records, canonical literals, but the
// notation facts (separator, 12/24h, dash spacing, placeholder count, plus sign) preserved.
func CanonRender(d Doc) string { return CanonRenderBy(d, 0) }

// CanonRenderBy is CanonRender with the given reading of lopsided dashes (see DashRule).
func CanonRenderBy(d Doc, rule int) string {
	var sb strings.Builder
	for ri, r := range d.Records {
		if ri > 0 {
			sb.WriteString("\n")
		}
		sb.WriteString(r.Date.Lit())
		if r.Should != nil && r.Should.Mins != 0 {
			sb.WriteString(" (" + CanonDuration(r.Should.Mins, false, 0) + "!)")
		}
		sb.WriteString("\n")
		for _, s := range r.Summary {
			sb.WriteString(string(s) + "\n")
		}
		for _, e := range r.Entries {
			sb.WriteString("    " + CanonValueBy(e, rule))
			if len(e.Summary) > 0 && e.Summary[0] != "" {
				sb.WriteString(" " + string(e.Summary[0]))
			}
			sb.WriteString("\n")
			for k := 1; k < len(e.Summary); k++ {
				sb.WriteString("        " + string(e.Summary[k]) + "\n")
			}
		}
	}
	return sb.String()
}

func CanonValue(e Entry) string { return CanonValueBy(e, 0) }

// CanonValueBy renders the canonical value with the given reading of lopsided dashes (DashRule).
func CanonValueBy(e Entry, rule int) string {
	sp := ""
	if e.spacesBy(rule) {
		sp = " "
	}
	switch e.Kind {
	case KDuration:
		return CanonDuration(e.Dur.Mins, e.Dur.Plus, e.Dur.ZeroSign)
	case KRange:
		return CanonTime(e.Start.Off, e.Start.Is12h) + sp + "-" + sp + CanonTime(e.End.Off, e.End.Is12h)
	}
	return CanonTime(e.Start.Off, e.Start.Is12h) + sp + "-" + sp + strings.Repeat("?", e.QMarks)
}
