package model

import (
	"fmt"
	"strconv"
	"unicode/utf8"
)

// A strict RFC 8259 parser written by hand (not encoding/json): exactly one value, no
// trailing garbage, no raw control characters in strings, valid UTF-8, valid escapes.
// Objects keep their key order and reject duplicate keys.

type JObject struct {
	Keys []string
	Vals map[string]any
}

func (o *JObject) Get(k string) (any, bool) { v, ok := o.Vals[k]; return v, ok }

type JNumber string

func (n JNumber) Int() (int, error) { return strconv.Atoi(string(n)) }

type jparser struct {
	s string
	i int
}

func ParseJSON(s string) (any, error) {
	if !utf8.ValidString(s) {
		return nil, fmt.Errorf("JSON text is not valid UTF-8")
	}
	p := &jparser{s: s}
	p.ws()
	v, err := p.value()
	if err != nil {
		return nil, err
	}
	p.ws()
	if p.i != len(p.s) {
		return nil, fmt.Errorf("trailing data at offset %d", p.i)
	}
	return v, nil
}

func (p *jparser) ws() {
	for p.i < len(p.s) && (p.s[p.i] == ' ' || p.s[p.i] == '\t' || p.s[p.i] == '\n' || p.s[p.i] == '\r') {
		p.i++
	}
}

func (p *jparser) value() (any, error) {
	if p.i >= len(p.s) {
		return nil, fmt.Errorf("unexpected end")
	}
	switch c := p.s[p.i]; {
	case c == '{':
		return p.object()
	case c == '[':
		return p.array()
	case c == '"':
		return p.str()
	case c == '-' || (c >= '0' && c <= '9'):
		return p.number()
	default:
		for _, lit := range []struct {
			t string
			v any
		}{{"true", true}, {"false", false}, {"null", nil}} {
			if len(p.s)-p.i >= len(lit.t) && p.s[p.i:p.i+len(lit.t)] == lit.t {
				p.i += len(lit.t)
				return lit.v, nil
			}
		}
	}
	return nil, fmt.Errorf("unexpected character %q at offset %d", p.s[p.i], p.i)
}

func (p *jparser) object() (any, error) {
	p.i++ // {
	o := &JObject{Vals: map[string]any{}}
	p.ws()
	if p.i < len(p.s) && p.s[p.i] == '}' {
		p.i++
		return o, nil
	}
	for {
		p.ws()
		if p.i >= len(p.s) || p.s[p.i] != '"' {
			return nil, fmt.Errorf("expected object key at offset %d", p.i)
		}
		k, err := p.str()
		if err != nil {
			return nil, err
		}
		p.ws()
		if p.i >= len(p.s) || p.s[p.i] != ':' {
			return nil, fmt.Errorf("expected ':' at offset %d", p.i)
		}
		p.i++
		p.ws()
		v, err := p.value()
		if err != nil {
			return nil, err
		}
		if _, dup := o.Vals[k]; dup {
			return nil, fmt.Errorf("duplicate key %q", k)
		}
		o.Keys = append(o.Keys, k)
		o.Vals[k] = v
		p.ws()
		if p.i >= len(p.s) {
			return nil, fmt.Errorf("unterminated object")
		}
		if p.s[p.i] == ',' {
			p.i++
			continue
		}
		if p.s[p.i] == '}' {
			p.i++
			return o, nil
		}
		return nil, fmt.Errorf("expected ',' or '}' at offset %d", p.i)
	}
}

func (p *jparser) array() (any, error) {
	p.i++ // [
	arr := []any{}
	p.ws()
	if p.i < len(p.s) && p.s[p.i] == ']' {
		p.i++
		return arr, nil
	}
	for {
		p.ws()
		v, err := p.value()
		if err != nil {
			return nil, err
		}
		arr = append(arr, v)
		p.ws()
		if p.i >= len(p.s) {
			return nil, fmt.Errorf("unterminated array")
		}
		if p.s[p.i] == ',' {
			p.i++
			continue
		}
		if p.s[p.i] == ']' {
			p.i++
			return arr, nil
		}
		return nil, fmt.Errorf("expected ',' or ']' at offset %d", p.i)
	}
}

func hexVal(b byte) (int, bool) {
	switch {
	case b >= '0' && b <= '9':
		return int(b - '0'), true
	case b >= 'a' && b <= 'f':
		return int(b-'a') + 10, true
	case b >= 'A' && b <= 'F':
		return int(b-'A') + 10, true
	}
	return 0, false
}

func (p *jparser) hex4() (int, error) {
	if p.i+4 > len(p.s) {
		return 0, fmt.Errorf("short \\u escape")
	}
	v := 0
	for k := 0; k < 4; k++ {
		h, ok := hexVal(p.s[p.i+k])
		if !ok {
			return 0, fmt.Errorf("bad \\u escape at offset %d", p.i)
		}
		v = v*16 + h
	}
	p.i += 4
	return v, nil
}

func (p *jparser) str() (string, error) {
	p.i++ // "
	var out []byte
	for {
		if p.i >= len(p.s) {
			return "", fmt.Errorf("unterminated string")
		}
		c := p.s[p.i]
		switch {
		case c == '"':
			p.i++
			return string(out), nil
		case c < 0x20:
			return "", fmt.Errorf("raw control character 0x%02x in string at offset %d", c, p.i)
		case c == '\\':
			p.i++
			if p.i >= len(p.s) {
				return "", fmt.Errorf("unterminated escape")
			}
			e := p.s[p.i]
			p.i++
			switch e {
			case '"', '\\', '/':
				out = append(out, e)
			case 'b':
				out = append(out, '\b')
			case 'f':
				out = append(out, '\f')
			case 'n':
				out = append(out, '\n')
			case 'r':
				out = append(out, '\r')
			case 't':
				out = append(out, '\t')
			case 'u':
				v, err := p.hex4()
				if err != nil {
					return "", err
				}
				r := rune(v)
				if v >= 0xD800 && v <= 0xDBFF {
					if p.i+2 <= len(p.s) && p.s[p.i] == '\\' && p.s[p.i+1] == 'u' {
						p.i += 2
						lo, err := p.hex4()
						if err != nil {
							return "", err
						}
						if lo < 0xDC00 || lo > 0xDFFF {
							return "", fmt.Errorf("unpaired surrogate")
						}
						r = rune((v-0xD800)<<10|(lo-0xDC00)) + 0x10000
					} else {
						return "", fmt.Errorf("unpaired surrogate")
					}
				} else if v >= 0xDC00 && v <= 0xDFFF {
					return "", fmt.Errorf("unpaired surrogate")
				}
				out = utf8.AppendRune(out, r)
			default:
				return "", fmt.Errorf("invalid escape \\%c", e)
			}
		default:
			out = append(out, c)
			p.i++
		}
	}
}

func (p *jparser) number() (any, error) {
	start := p.i
	if p.s[p.i] == '-' {
		p.i++
	}
	if p.i >= len(p.s) {
		return nil, fmt.Errorf("bad number")
	}
	if p.s[p.i] == '0' {
		p.i++
	} else if p.s[p.i] >= '1' && p.s[p.i] <= '9' {
		for p.i < len(p.s) && isDigit(p.s[p.i]) {
			p.i++
		}
	} else {
		return nil, fmt.Errorf("bad number at offset %d", p.i)
	}
	if p.i < len(p.s) && p.s[p.i] == '.' {
		p.i++
		n := 0
		for p.i < len(p.s) && isDigit(p.s[p.i]) {
			p.i++
			n++
		}
		if n == 0 {
			return nil, fmt.Errorf("bad fraction")
		}
	}
	if p.i < len(p.s) && (p.s[p.i] == 'e' || p.s[p.i] == 'E') {
		p.i++
		if p.i < len(p.s) && (p.s[p.i] == '+' || p.s[p.i] == '-') {
			p.i++
		}
		n := 0
		for p.i < len(p.s) && isDigit(p.s[p.i]) {
			p.i++
			n++
		}
		if n == 0 {
			return nil, fmt.Errorf("bad exponent")
		}
	}
	return JNumber(p.s[start:p.i]), nil
}
