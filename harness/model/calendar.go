// Package model is the independent reference model used by the oracles.
// It is written from Specification.md only: it imports nothing from klog and
// uses neither regexp nor time nor civil.
package model

// DaysFromCivil returns the number of days since 1970-01-01 in the proleptic
// Gregorian calendar (Hinnant's algorithm).
func DaysFromCivil(y, m, d int) int {
	if m <= 2 {
		y--
	}
	var era int
	if y >= 0 {
		era = y / 400
	} else {
		era = (y - 399) / 400
	}
	yoe := y - era*400
	mp := (m + 9) % 12
	doy := (153*mp+2)/5 + d - 1
	doe := yoe*365 + yoe/4 - yoe/100 + doy
	return era*146097 + doe - 719468
}

// CivilFromDays is the inverse of DaysFromCivil.
func CivilFromDays(z int) (int, int, int) {
	z += 719468
	var era int
	if z >= 0 {
		era = z / 146097
	} else {
		era = (z - 146096) / 146097
	}
	doe := z - era*146097
	yoe := (doe - doe/1460 + doe/36524 - doe/146096) / 365
	y := yoe + era*400
	doy := doe - (365*yoe + yoe/4 - yoe/100)
	mp := (5*doy + 2) / 153
	d := doy - (153*mp+2)/5 + 1
	m := mp + 3
	if m > 12 {
		m -= 12
	}
	if m <= 2 {
		y++
	}
	return y, m, d
}

func IsLeap(y int) bool { return y%4 == 0 && (y%100 != 0 || y%400 == 0) }

func DaysInMonth(y, m int) int {
	switch m {
	case 1, 3, 5, 7, 8, 10, 12:
		return 31
	case 4, 6, 9, 11:
		return 30
	case 2:
		if IsLeap(y) {
			return 29
		}
		return 28
	}
	return 0
}

// ValidDate says whether y-m-d is a date of the Gregorian calendar with a 4-digit year.
func ValidDate(y, m, d int) bool {
	return y >= 0 && y <= 9999 && m >= 1 && m <= 12 && d >= 1 && d <= DaysInMonth(y, m)
}

// WeekdayOfDays returns Monday=1 … Sunday=7 for a day number.
func WeekdayOfDays(z int) int {
	// 1970-01-01 (z=0) was a Thursday (4).
	w := (z%7 + 7) % 7 // 0 = Thursday
	return (w+3)%7 + 1
}

func Weekday(y, m, d int) int { return WeekdayOfDays(DaysFromCivil(y, m, d)) }

// ISOWeek returns the ISO-8601 week number and week-year (Thursday rule).
func ISOWeek(y, m, d int) (week int, weekYear int) {
	z := DaysFromCivil(y, m, d)
	wd := WeekdayOfDays(z)
	thursday := z - wd + 4
	ty, _, _ := CivilFromDays(thursday)
	jan1 := DaysFromCivil(ty, 1, 1)
	return (thursday-jan1)/7 + 1, ty
}

// WeeksInISOYear returns 52 or 53.
func WeeksInISOYear(y int) int {
	w, _ := ISOWeek(y, 12, 28)
	return w
}

func Quarter(m int) int { return (m-1)/3 + 1 }

// MinDay and MaxDay are the day numbers of 0000-01-01 and 9999-12-31.
var MinDay = DaysFromCivil(0, 1, 1)
var MaxDay = DaysFromCivil(9999, 12, 31)
