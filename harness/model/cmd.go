package model

import (
	"strings"
)

// Cmd is one mutating klog command with its parameters, as the user would type it.
type Cmd struct {
	Kind string // track, start, stop, switch, pause, create

	// date selection (track, start, stop, switch, create)
	DateSel string // "", "today", "yesterday", "tomorrow", "explicit"
	Date    Date   // for "explicit"

	// time selection (start, stop, switch)
	Time  *Time // explicit --time (its Lit is passed on the command line)
	Round int   // --round N (0 = not given)

	// --summary (entry summary for start/stop/switch/pause, record summary for create)
	Summary   []Text
	Resume    bool
	ResumeNth int

	Entry *Entry // track: the entry to add (value and summary)
	Raw   []Text // track: raw entry text lines instead of Entry (C05: possibly not an entry)

	NoTags bool  // pause
	Extend bool  // pause
	Ticks  []int // pause: seconds by which the clock advances before each iteration

	Should *Duration // create --should
}

// Env is the part of the environment the commands depend on.
type Env struct {
	NowDay        int // day number of the clock
	NowSec        int // seconds since midnight of the clock
	DefaultRound  int // default_rounding (0 = unset)
	DefaultShould *int
}

func (e Env) NowMin() int { return e.NowSec / 60 }

// RoundNearest rounds a minute of the day to the nearest multiple of r (ties up); 0..1440.
func RoundNearest(min, r int) int {
	if r <= 0 {
		return min
	}
	rem := min % r
	if 2*rem >= r {
		return min - rem + r
	}
	return min - rem
}

// TargetDay resolves the date selection.
func (c Cmd) TargetDay(env Env) int {
	switch c.DateSel {
	case "explicit":
		return c.Date.Days()
	case "yesterday":
		return env.NowDay - 1
	case "tomorrow":
		return env.NowDay + 1
	}
	return env.NowDay
}

// ClockOffset is the current (rounded) time expressed relative to the record day recDay.
// ok is false if it is not representable (-1440 <= off < 2880).
func (c Cmd) ClockOffset(env Env, recDay int) (int, bool) {
	r := c.Round
	if r == 0 {
		r = env.DefaultRound
	}
	off := RoundNearest(env.NowMin(), r) + (env.NowDay-recDay)*1440
	return off, off >= -1440 && off < 2880
}

// EntryLines is the text of a track entry as passed on the command line.
func (c Cmd) EntryLines() []string {
	if c.Entry == nil {
		return Strs(c.Raw)
	}
	first := c.Entry.ValueLit()
	if len(c.Entry.Summary) > 0 && c.Entry.Summary[0] != "" {
		first += " " + string(c.Entry.Summary[0])
	}
	out := []string{first}
	for _, s := range c.Entry.Summary[min(1, len(c.Entry.Summary)):] {
		out = append(out, string(s))
	}
	return out
}

func cloneDoc(d Doc) Doc {
	out := Doc{Records: make([]Record, len(d.Records))}
	for i, r := range d.Records {
		nr := r
		nr.Summary = append([]Text(nil), r.Summary...)
		nr.Entries = make([]Entry, len(r.Entries))
		for j, e := range r.Entries {
			ne := e
			ne.Summary = append([]Text(nil), e.Summary...)
			nr.Entries[j] = ne
		}
		if r.Should != nil {
			s := *r.Should
			nr.Should = &s
		}
		out.Records[i] = nr
	}
	return out
}

func isSorted(d Doc) bool {
	for i := 1; i < len(d.Records); i++ {
		if d.Records[i].Date.Days() < d.Records[i-1].Date.Days() {
			return false
		}
	}
	return true
}

// withNewRecord returns every acceptable placement of a new record: anywhere if the file is
// not sorted by date, otherwise only where the file stays sorted. idx gives the new index.
func withNewRecord(d Doc, r Record) ([]Doc, []int) {
	var docs []Doc
	var idxs []int
	sorted := isSorted(d)
	for p := 0; p <= len(d.Records); p++ {
		nd := cloneDoc(d)
		recs := append([]Record{}, nd.Records[:p]...)
		recs = append(recs, r)
		recs = append(recs, nd.Records[p:]...)
		nd.Records = recs
		if sorted && !isSorted(nd) {
			continue
		}
		docs = append(docs, nd)
		idxs = append(idxs, p)
	}
	return docs, idxs
}

func recordsAt(d Doc, day int) []int {
	var out []int
	for i, r := range d.Records {
		if r.Date.Days() == day {
			out = append(out, i)
		}
	}
	return out
}

func validDay(day int) bool { return day >= MinDay && day <= MaxDay }

func newRecord(day int, env Env, should *Duration, summary []Text) Record {
	r := Record{Date: DateOfDays(day, false), Summary: summary}
	if should != nil {
		s := *should
		r.Should = &s
	} else if env.DefaultShould != nil {
		r.Should = &Duration{Mins: *env.DefaultShould}
	}
	return r
}

// appendSummary implements "text is appended to the entry's last line, further lines follow".
func appendSummary(s []Text, extra []Text) []Text {
	out := append([]Text(nil), s...)
	if len(out) == 0 {
		out = []Text{""}
	}
	if len(extra) == 0 {
		return out
	}
	last := len(out) - 1
	if extra[0] != "" {
		if out[last] == "" {
			out[last] = extra[0]
		} else {
			out[last] = out[last] + " " + extra[0]
		}
	}
	return append(out, extra[1:]...)
}

// resolveSummary implements --summary / --resume / --resume-nth. It returns the acceptable
// summaries (several if the "previous record" is ambiguous) or reject.
func resolveSummary(c Cmd, d Doc, current *Record, targetDay int, fallBack bool) ([][]Text, bool) {
	if c.Summary != nil && (c.Resume || c.ResumeNth != 0) {
		return nil, true
	}
	if c.Resume && c.ResumeNth != 0 {
		return nil, true
	}
	if c.Summary != nil {
		return [][]Text{c.Summary}, false
	}
	none := [][]Text{{""}}
	if c.Resume {
		if current != nil && len(current.Entries) > 0 {
			return [][]Text{current.Entries[len(current.Entries)-1].Summary}, false
		}
		if !fallBack {
			return none, false
		}
		best := -1 << 60
		for _, r := range d.Records {
			if dd := r.Date.Days(); dd < targetDay && dd > best {
				best = dd
			}
		}
		var out [][]Text
		for _, r := range d.Records {
			if r.Date.Days() == best {
				if len(r.Entries) > 0 {
					out = append(out, r.Entries[len(r.Entries)-1].Summary)
				} else {
					out = append(out, []Text{""})
				}
			}
		}
		if len(out) == 0 {
			return none, false
		}
		return out, false
	}
	if c.ResumeNth != 0 {
		n := 0
		if current != nil {
			n = len(current.Entries)
		}
		i := c.ResumeNth - 1
		if c.ResumeNth < 0 {
			i = n + c.ResumeNth
		}
		if i < 0 || i >= n {
			return nil, true
		}
		return [][]Text{current.Entries[i].Summary}, false
	}
	return none, false
}

func normSummary(s []Text) []Text {
	if len(s) == 0 {
		return []Text{""}
	}
	return append([]Text(nil), s...)
}

// Apply computes the acceptable results of running c on a file that denotes d.
// reject == true means the command must fail and leave the file untouched.
// Where the behaviour is not determined by the property (which of several records with the
// target date is used, where a record goes in an unsorted file, which of several equally dated
// previous records --resume falls back to) every acceptable outcome is returned.
// Unspecified is set by Apply when the property texts leave the outcome of the command open (the
// command may fail, or succeed in a way the model does not predict): `switch` when only yesterday's
// record has an open range (klog gives `stop` a fallback there; the properties name it for stop
// only), and `create` for a date that already has a record. Callers then assert nothing for the step.
var Unspecified bool

func Apply(d Doc, c Cmd, env Env) (results []Doc, reject bool, mayReject bool) {
	Unspecified = false
	results, reject, mayReject = apply(d, c, env)
	return
}

func apply(d Doc, c Cmd, env Env) (results []Doc, reject bool, mayReject bool) {
	day := c.TargetDay(env)
	if c.Kind != "pause" && !validDay(day) {
		return nil, true, true
	}
	switch c.Kind {
	case "create":
		r := newRecord(day, env, c.Should, c.Summary)
		docs, _ := withNewRecord(d, r)
		// a second record for a date that has one: klog adds it; refusing it would be as good
		return docs, false, len(recordsAt(d, day)) > 0

	case "track":
		if c.Entry == nil {
			return nil, true, true
		}
		e := *c.Entry
		e.Summary = normSummary(e.Summary)
		res, rej, may := addEntry(d, day, env, func(r *Record) ([]Entry, bool) {
			if e.Kind == KOpen && r.OpenIndex() >= 0 {
				return nil, false
			}
			return []Entry{e}, true
		})
		return res, rej, may

	case "start":
		off, ok := startStopOffset(c, env, day)
		if !ok {
			return nil, true, true
		}
		targets := recordsAt(d, day)
		var out []Doc
		try := func(base Doc, ri int, current *Record) bool {
			if current != nil && current.OpenIndex() >= 0 {
				return false
			}
			sums, rej := resolveSummary(c, d, current, day, true)
			if rej {
				return false
			}
			for _, s := range sums {
				nd := cloneDoc(base)
				nd.Records[ri].Entries = append(nd.Records[ri].Entries, Entry{Kind: KOpen, Start: Time{Off: off}, DashL: " ", DashR: " ", QMarks: 1, Summary: normSummary(s)})
				out = append(out, nd)
			}
			return true
		}
		if len(targets) == 0 {
			docs, idxs := withNewRecord(d, newRecord(day, env, nil, nil))
			okAny := false
			for k := range docs {
				if try(docs[k], idxs[k], nil) {
					okAny = true
				}
			}
			return out, !okAny, !okAny
		}
		okAny, failAny := false, false
		for _, ri := range targets {
			r := d.Records[ri]
			if try(d, ri, &r) {
				okAny = true
			} else {
				failAny = true
			}
		}
		return out, !okAny, failAny

	case "stop", "switch":
		type cand struct{ ri, recDay int }
		var cands []cand
		for _, ri := range recordsAt(d, day) {
			cands = append(cands, cand{ri, day})
		}
		automatic := c.DateSel != "explicit" && c.Time == nil
		fallback := false
		if len(cands) == 0 && automatic && validDay(day-1) {
			if c.Kind == "stop" {
				for _, ri := range recordsAt(d, day-1) {
					cands = append(cands, cand{ri, day - 1})
				}
				fallback = len(cands) > 0
			} else {
				for _, ri := range recordsAt(d, day-1) {
					if d.Records[ri].OpenIndex() >= 0 {
						Unspecified = true // a fallback for switch is neither promised nor excluded
					}
				}
			}
		}
		var out []Doc
		// the fallback is stated for "no record for today"; with a date flag (--today, --yesterday,
		// --tomorrow) klog applies it as well, which the property neither demands nor forbids
		failAny := fallback && c.DateSel != ""
		for _, cd := range cands {
			r := d.Records[cd.ri]
			oi := r.OpenIndex()
			if oi < 0 {
				failAny = true
				continue
			}
			var off int
			var ok bool
			if c.Time != nil {
				off, ok = c.Time.Off, true
			} else {
				if c.DateSel == "explicit" {
					// an explicit date other than today/yesterday/tomorrow needs an explicit time
					if dlt := env.NowDay - day; dlt < -1 || dlt > 1 {
						failAny = true
						continue
					}
				}
				off, ok = c.ClockOffset(env, cd.recDay)
			}
			if !ok || off < r.Entries[oi].Start.Off {
				failAny = true
				continue
			}
			nd := cloneDoc(d)
			e := &nd.Records[cd.ri].Entries[oi]
			e.Kind = KRange
			e.End = Time{Off: off}
			if c.Kind == "stop" {
				base := e.Summary
				e.Summary = appendSummary(base, c.Summary)
				out = append(out, nd)
				// "with the extra summary appended": when the line already ends in a blank, joining
				// without a further blank is an equally good reading
				if len(base) > 0 && len(c.Summary) > 0 && c.Summary[0] != "" {
					if last := string(base[len(base)-1]); strings.HasSuffix(last, " ") || strings.HasSuffix(last, "\t") {
						alt := cloneDoc(nd)
						sm := append([]Text(nil), base...)
						sm[len(sm)-1] = Text(last + string(c.Summary[0]))
						sm = append(sm, c.Summary[1:]...)
						alt.Records[cd.ri].Entries[oi].Summary = sm
						out = append(out, alt)
					}
				}
				continue
			}
			closed := nd.Records[cd.ri]
			sums, rej := resolveSummary(c, nd, &closed, day, false)
			if rej {
				failAny = true
				continue
			}
			for _, s := range sums {
				nd2 := cloneDoc(nd)
				nd2.Records[cd.ri].Entries = append(nd2.Records[cd.ri].Entries, Entry{Kind: KOpen, Start: Time{Off: off}, DashL: " ", DashR: " ", QMarks: 1, Summary: normSummary(s)})
				out = append(out, nd2)
			}
		}
		// klog uses the first record of the target date; if that one cannot be stopped the command
		// fails even if a later duplicate could. Both readings are acceptable only when some
		// candidate works; rejection is certain when none does.
		return out, len(out) == 0, failAny || len(out) == 0

	case "pause":
		if c.Extend && c.Summary != nil {
			return nil, true, true
		}
		var cands []int
		cands = append(cands, recordsAt(d, env.NowDay)...)
		if len(cands) == 0 {
			cands = append(cands, recordsAt(d, env.NowDay-1)...)
		}
		// elapsed whole minutes: the maximum over all clock readings
		elapsed, t, best := 0, 0, 0
		for _, s := range c.Ticks {
			t += s
			if t/60 > best && t >= 0 {
				best = t / 60
			}
		}
		elapsed = best
		var out []Doc
		failAny := false
		for _, ri := range cands {
			r := d.Records[ri]
			oi := r.OpenIndex()
			if oi < 0 {
				failAny = true
				continue
			}
			nd := cloneDoc(d)
			if c.Extend {
				pi := -1
				for i, e := range r.Entries {
					if e.Kind == KDuration && e.Dur.Mins <= 0 {
						pi = i
					}
				}
				if pi < 0 {
					failAny = true
					continue
				}
				nd.Records[ri].Entries[pi].Dur.Mins -= elapsed
				out = append(out, nd)
				continue
			}
			sum := normSummary(c.Summary)
			var carryBase []Text
			var carryTags []string
			if !c.NoTags {
				carryBase = append([]Text(nil), sum...)
				tags, _ := TagsOfLines(Strs(r.Entries[oi].Summary))
				var ts []string
				for _, tg := range tags {
					ts = append(ts, TagString(tg))
				}
				if len(ts) > 0 {
					sum = appendSummary(sum, []Text{Text(strings.Join(ts, " "))})
					carryTags = ts
				}
			}
			nd.Records[ri].Entries = append(nd.Records[ri].Entries, Entry{Kind: KDuration, Dur: Duration{Mins: -elapsed, ZeroSign: -1}, Summary: sum, LooseTrail: true, CarryBase: carryBase, CarryTags: carryTags})
			out = append(out, nd)
		}
		return out, len(out) == 0, failAny || len(out) == 0
	}
	return nil, true, true
}

func startStopOffset(c Cmd, env Env, day int) (int, bool) {
	if c.Time != nil {
		return c.Time.Off, true
	}
	if dlt := env.NowDay - day; dlt < -1 || dlt > 1 {
		return 0, false // "Please specify a time value for dates in the past"
	}
	return c.ClockOffset(env, day)
}

// addEntry appends entries to the record(s) of the given day, creating the record when absent.
func addEntry(d Doc, day int, env Env, mk func(r *Record) ([]Entry, bool)) ([]Doc, bool, bool) {
	var out []Doc
	targets := recordsAt(d, day)
	if len(targets) == 0 {
		nr := newRecord(day, env, nil, nil)
		es, ok := mk(&nr)
		if !ok {
			return nil, true, true
		}
		nr.Entries = es
		docs, _ := withNewRecord(d, nr)
		return docs, false, false
	}
	failAny := false
	for _, ri := range targets {
		r := d.Records[ri]
		es, ok := mk(&r)
		if !ok {
			failAny = true
			continue
		}
		nd := cloneDoc(d)
		nd.Records[ri].Entries = append(nd.Records[ri].Entries, es...)
		out = append(out, nd)
	}
	return out, len(out) == 0, failAny
}

// PauseSummaryAcceptable decides whether got is an acceptable summary for a pause entry whose
// user-given summary is base and which has to carry over the tags carry (normalised tag strings):
// got starts with base (line by line, the last line as a prefix), what follows on that last line
// consists of nothing but tags from carry separated by blanks, and every tag of carry is matched
// (in the sense of klog's tag matching, C14) by a tag of got.
func PauseSummaryAcceptable(got []string, base []Text, carry []string) bool {
	trim := func(s string) string { return strings.TrimRight(s, " \t") }
	b := Strs(base)
	if len(b) == 0 {
		b = []string{""}
	}
	if len(got) != len(b) {
		return false
	}
	last := len(b) - 1
	for i := 0; i < last; i++ {
		if trim(got[i]) != trim(b[i]) {
			return false
		}
	}
	prefix := trim(b[last])
	if !strings.HasPrefix(got[last], prefix) {
		return false
	}
	rest := got[last][len(prefix):]
	if prefix != "" && strings.Trim(rest, " ") != "" && !strings.HasPrefix(rest, " ") {
		return false
	}
	rest = strings.Trim(rest, " ")
	used := make([]bool, len(carry))
	for rest != "" {
		progress := false
		for i, t := range carry {
			if used[i] || !strings.HasPrefix(rest, t) || (len(rest) > len(t) && rest[len(t)] != ' ') {
				continue
			}
			used[i], progress = true, true
			rest = strings.TrimLeft(rest[len(t):], " ")
			break
		}
		if !progress {
			return false
		}
	}
	all, _ := TagsOfLines(got)
	for _, t := range carry {
		ts, _ := ScanTags(t)
		if len(ts) != 1 || !TagSetContains(all, ts[0]) { // klog's tag matching: `#tag` is matched by `#tag=v`
			return false
		}
	}
	return true
}
