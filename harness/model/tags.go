package model

import (
	"sort"
	"strings"
	"unicode"
	"unicode/utf8"
)

// Tag is a normalised tag: lower-case name, literal value ("" = absent).
type Tag struct {
	Name  string
	Value string
}

func isTagChar(r rune) bool {
	return unicode.IsLetter(r) || (r >= '0' && r <= '9') || r == '_' || r == '-'
}

func lower(s string) string {
	var sb strings.Builder
	for _, r := range s {
		sb.WriteRune(unicode.ToLower(r))
	}
	return sb.String()
}

// ScanTags scans one summary line left to right (spec section "Tag"). unsure is set when the
// line contains a `#` directly preceded by another `#` (the spec says "a single #").
func ScanTags(line string) (tags []Tag, unsure bool) {
	i := 0
	for i < len(line) {
		if line[i] != '#' {
			_, size := utf8.DecodeRuneInString(line[i:])
			i += size
			continue
		}
		if i > 0 && line[i-1] == '#' {
			unsure = true
		}
		// name
		j := i + 1
		for j < len(line) {
			r, size := utf8.DecodeRuneInString(line[j:])
			if r == utf8.RuneError && size == 1 {
				break
			}
			if !isTagChar(r) {
				break
			}
			j += size
		}
		if j == i+1 {
			i++
			continue
		}
		t := Tag{Name: lower(line[i+1 : j])}
		if j < len(line) && line[j] == '=' {
			k := j + 1
			if k < len(line) && (line[k] == '"' || line[k] == '\'') {
				q := line[k]
				end := strings.IndexByte(line[k+1:], q)
				if end >= 0 {
					t.Value = line[k+1 : k+1+end]
					j = k + 1 + end + 1
				} else {
					j = k // unterminated: value absent, the `=` is consumed
				}
			} else {
				m := k
				for m < len(line) {
					r, size := utf8.DecodeRuneInString(line[m:])
					if (r == utf8.RuneError && size == 1) || !isTagChar(r) {
						break
					}
					m += size
				}
				t.Value = line[k:m]
				j = m
			}
		}
		tags = append(tags, t)
		i = j
	}
	return tags, unsure
}

// TagString is the normalised textual form of a tag (value quoted only when necessary).
func TagString(t Tag) string {
	s := "#" + t.Name
	if t.Value == "" {
		return s
	}
	simple := true
	for _, r := range t.Value {
		if !isTagChar(r) {
			simple = false
		}
	}
	if !utf8.ValidString(t.Value) {
		simple = false
	}
	q := ""
	if !simple {
		q = "\""
		if strings.Contains(t.Value, "\"") {
			q = "'"
		}
	}
	return s + "=" + q + t.Value + q
}

// TagsOfLines scans all lines of a summary.
func TagsOfLines(lines []string) ([]Tag, bool) {
	var all []Tag
	unsure := false
	for _, l := range lines {
		ts, u := ScanTags(l)
		all = append(all, ts...)
		unsure = unsure || u
	}
	return all, unsure
}

func SortedTagStrings(ts []Tag) []string {
	out := []string{}
	for _, t := range ts {
		out = append(out, TagString(t))
	}
	sort.Strings(out)
	return out
}

// TagSetContains implements matching: a bare name matches a valued tag, names are compared
// case-insensitively (already normalised), values literally.
func TagSetContains(set []Tag, q Tag) bool {
	for _, t := range set {
		if t.Name != q.Name {
			continue
		}
		if q.Value == "" || q.Value == t.Value {
			return true
		}
	}
	return false
}
