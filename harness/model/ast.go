package model

import (
	"encoding/hex"
	"encoding/json"
	"fmt"
	"strings"
	"unicode/utf8"
)

// Text is a byte string that survives a JSON round trip even if it is not valid UTF-8.
type Text string

func (t Text) MarshalJSON() ([]byte, error) {
	if utf8.ValidString(string(t)) {
		return json.Marshal(string(t))
	}
	return json.Marshal(map[string]string{"hex": hex.EncodeToString([]byte(t))})
}

func (t *Text) UnmarshalJSON(b []byte) error {
	var s string
	if err := json.Unmarshal(b, &s); err == nil {
		*t = Text(s)
		return nil
	}
	var m map[string]string
	if err := json.Unmarshal(b, &m); err != nil {
		return err
	}
	raw, err := hex.DecodeString(m["hex"])
	if err != nil {
		return err
	}
	*t = Text(raw)
	return nil
}

func Texts(ss ...string) []Text {
	out := make([]Text, len(ss))
	for i, s := range ss {
		out[i] = Text(s)
	}
	return out
}

func Strs(ts []Text) []string {
	out := make([]string, len(ts))
	for i, s := range ts {
		out[i] = string(s)
	}
	return out
}

type Date struct {
	Y, M, D int
	Slash   bool
}

func (d Date) Lit() string {
	sep := "-"
	if d.Slash {
		sep = "/"
	}
	return fmt.Sprintf("%04d%s%02d%s%02d", d.Y, sep, d.M, sep, d.D)
}

func (d Date) Days() int { return DaysFromCivil(d.Y, d.M, d.D) }

func DateOfDays(z int, slash bool) Date {
	y, m, d := CivilFromDays(z)
	return Date{y, m, d, slash}
}

// Time is a point in time relative to the record's date.
type Time struct {
	Off   int    // minutes since the record date's midnight, -1440 … 2879
	Is12h bool   // written with am/pm
	Lit   string // the spelling used in the file
}

func (t Time) Shift() int {
	switch {
	case t.Off < 0:
		return -1
	case t.Off >= 1440:
		return 1
	}
	return 0
}
func (t Time) Hour() int   { return ((t.Off%1440 + 1440) % 1440) / 60 }
func (t Time) Minute() int { return ((t.Off%1440 + 1440) % 1440) % 60 }

// CanonTime is the canonical spelling of a time value (spec: no padding, 0:00> for 24:00).
func CanonTime(off int, is12h bool) string {
	t := Time{Off: off}
	pre, suf := "", ""
	if t.Shift() < 0 {
		pre = "<"
	} else if t.Shift() > 0 {
		suf = ">"
	}
	h, m := t.Hour(), t.Minute()
	if !is12h {
		return fmt.Sprintf("%s%d:%02d%s", pre, h, m, suf)
	}
	ap := "am"
	if h >= 12 {
		ap = "pm"
	}
	h12 := h % 12
	if h12 == 0 {
		h12 = 12
	}
	return fmt.Sprintf("%s%d:%02d%s%s", pre, h12, m, ap, suf)
}

type Duration struct {
	Mins     int
	Plus     bool   // written with an explicit '+'
	ZeroSign int    // sign written in front of a zero value (-1, 0, +1)
	Lit      string // the spelling used in the file
}

// CanonDuration is the canonical spelling of a duration with the notation facts klog preserves.
func CanonDuration(mins int, plus bool, zeroSign int) string {
	if mins == 0 {
		switch {
		case zeroSign < 0:
			return "-0m"
		case zeroSign > 0:
			return "+0m"
		}
		return "0m"
	}
	s := ""
	a := mins
	if mins < 0 {
		s = "-"
		a = -mins
	} else if plus {
		s = "+"
	}
	if a/60 > 0 {
		s += fmt.Sprintf("%dh", a/60)
	}
	if a%60 > 0 {
		s += fmt.Sprintf("%dm", a%60)
	}
	return s
}

const (
	KDuration = "duration"
	KRange    = "range"
	KOpen     = "open_range"
)

type Entry struct {
	Kind    string
	Dur     Duration
	Start   Time
	End     Time
	DashL   string // blanks before the dash
	DashR   string // blanks after the dash
	QMarks  int    // number of '?' (>= 1) for open ranges
	Summary []Text // always len >= 1; Summary[0] == "" means no text on the entry line
	// Sep is the blank between value and summary ("" = one space). A tab is accepted by klog but
	// is not what the specification says ("one space"), so it is only generated where klog's own
	// notion of a valid file is what matters (never for C01's construction oracle).
	Sep string `json:",omitempty"`

	// LooseTrail marks entries written by `klog pause`: trailing blanks of their summary lines
	// are not compared (klog writes `-0m foo ` when there are no tags to append; cosmetic).
	LooseTrail bool `json:",omitempty"`

	// CarryBase/CarryTags are set on the entry predicted for `klog pause` (without --no-tags): the
	// summary the user gave and the open range's tags. Summary holds base + all tags (what klog
	// does today); the property only asks that the tags are carried over, so a summary that
	// starts with the base, appends nothing but some of these tags and contains all of them (in
	// the base or the appended part) is equally acceptable. See PauseSummaryAcceptable.
	CarryBase []Text   `json:",omitempty"`
	CarryTags []string `json:",omitempty"`
}

// Spaces is the "spaces around dash" notation fact (klog derives it from the left side only).
func (e Entry) Spaces() bool { return len(e.DashL) > 0 }

// SpacesKnown reports whether the notation fact is unambiguous: blanks on both sides of the dash or
// on neither. For `8:00- 9:00` the property does not say which notation the entry has.
func (e Entry) SpacesKnown() bool { return (len(e.DashL) > 0) == (len(e.DashR) > 0) }

// DashRule selects how a lopsided dash (`8:00- 9:00`) is read: 0 = the left side decides (what klog
// does today), 1 = the right side, 2 = either side, 3 = both sides.
var DashRule = 0

func (e Entry) spacesBy(rule int) bool {
	l, r := len(e.DashL) > 0, len(e.DashR) > 0
	switch rule {
	case 1:
		return r
	case 2:
		return l || r
	case 3:
		return l && r
	}
	return l
}

func (e Entry) ValueLit() string {
	switch e.Kind {
	case KDuration:
		return e.Dur.Lit
	case KRange:
		return e.Start.Lit + e.DashL + "-" + e.DashR + e.End.Lit
	default:
		return e.Start.Lit + e.DashL + "-" + e.DashR + strings.Repeat("?", e.QMarks)
	}
}

// Minutes is the contribution of the entry to the total (open range = 0).
func (e Entry) Minutes() int {
	switch e.Kind {
	case KDuration:
		return e.Dur.Mins
	case KRange:
		return e.End.Off - e.Start.Off
	}
	return 0
}

func (e Entry) HasSummary() bool {
	return len(e.Summary) > 1 || (len(e.Summary) == 1 && e.Summary[0] != "")
}

type Record struct {
	Date    Date
	Should  *Duration
	HeadGap string // blanks between date and should-total (>= one space)
	Summary []Text
	Entries []Entry
}

func (r Record) Total() int {
	t := 0
	for _, e := range r.Entries {
		t += e.Minutes()
	}
	return t
}

func (r Record) ShouldMins() int {
	if r.Should == nil {
		return 0
	}
	return r.Should.Mins
}

func (r Record) OpenIndex() int {
	for i, e := range r.Entries {
		if e.Kind == KOpen {
			return i
		}
	}
	return -1
}

type Doc struct {
	Records []Record
}

func (d Doc) Total() int {
	t := 0
	for _, r := range d.Records {
		t += r.Total()
	}
	return t
}

// IsZs reports membership in the Unicode Space Separator category.
func IsZs(r rune) bool {
	switch {
	case r == 0x20, r == 0xA0, r == 0x1680, r >= 0x2000 && r <= 0x200A, r == 0x202F, r == 0x205F, r == 0x3000:
		return true
	}
	return false
}

// IsBlankChar: the spec's "blank character" (tab or Zs).
func IsBlankChar(r rune) bool { return r == '\t' || IsZs(r) }

func StartsWithBlank(s string) bool {
	r, size := utf8.DecodeRuneInString(s)
	if size == 0 {
		return false
	}
	return IsBlankChar(r)
}

// AllBlank: empty or consisting of blank characters only.
func AllBlank(s string) bool {
	for _, r := range s {
		if !IsBlankChar(r) {
			return false
		}
	}
	return true
}
