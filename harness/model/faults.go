package model

import "strings"

// Fault is one rule-violating edit. Op names the operator, Sel selects the line it is applied
// to (modulo the number of applicable lines), Var selects a variant of the operator.
type Fault struct {
	Op  string
	Sel int
	Var int
}

// FaultOps lists all operators. Each one breaks a MUST rule of the specification and is
// built so that the result is invalid whatever the surrounding document looks like.
var FaultOps = []string{
	"bad-date", "text-after-headline", "bad-should-total", "indented-headline", "glued-should-total", "missing-blank-between-records",
	"rsum-leading-blank", "entry-indent-1", "entry-indent-plus-1", "indent-style-switch",
	"unindented-entry", "bad-time", "bad-duration", "range-missing-end", "range-bad-dash",
	"range-glued-garbage", "reversed-range", "shifted-placeholder", "second-open-range", "range-turned-open",
	"blank-line-inside-record", "stray-prose-block", "blank-only-continuation", "double-indent-first",
}

var badDates = []string{"2020-13-01", "2020-00-10", "2020-01-32", "2020-01-00", "2020-02-30", "1900-02-29", "2023-02-29", "2100-02-29",
	"2021-04-31", "20-01-01", "2020-1-1", "2020-01-1", "02020-01-01", "2020-01/01", "2020/01-01", "2020.01.01", "2020-01-01x",
	"x2020-01-01", "2020_01_01", "2020-01-011", "01-01-2020", "2020-0a-01", "٢٠٢٠-01-01", "2020–01–01", "2020-01", "20200101", "+020-01-01", "2020-+1-01", "2020-01-+1", "-020-01-01", "2020--1-01"}
var badShoulds = []string{"(8h)", "(8h!", "8h!)", "(!)", "()", "(foo!)", "(8h!!)", "(8:00!)", "(1h60m!)", "(8h!) (8h!)", "(8h!)x", "[8h!]", "(8h! foo)", "(8 h!)"}
var badTimes = []string{"25:00", "8:60", "24:01", "24:00>", "<8:00>", "0:30am", "13:00pm", "8:5", "8.00", "8:000", ":30", "8:", "123:00", "00:00am", "8:00AM", "8:00a", ">8:00", "8:00<", "8h00", "٨:00", "+8:00", "8:+5", "-0:30", "8:-5", "+8:30am", "1:+0pm", "-08:00"}
var badDurations = []string{"1h60m", "1m1h", "h", "m", "1.5h", "--1h", "+-1h", "1hm", "1h1h", "5", "1H", "1h30", "-", "+", "1h-30m", "1m30m", "１h", "1h61m", "0h60m", "1,5h", "1h+30m", "+1h+5m", "1h+5m"}
var reversedRanges = []string{"9:00 - 8:00", "9:00-8:59", "1:00> - 0:00", "0:00 - <23:00", "12:00pm - 12:00am", "24:00 - 23:59", "0:01 - <24:00", "0:00> - 23:59"}
var leadingBlanks = []string{" ", " ", "　", " "}

func clone(lines []LineInfo) []LineInfo { return append([]LineInfo(nil), lines...) }

func insertAt(lines []LineInfo, at int, text string) []LineInfo {
	out := make([]LineInfo, 0, len(lines)+1)
	out = append(out, lines[:at]...)
	nl := LineInfo{Line: Line{text, "\n"}, Role: "fault", Rec: -1, Entry: -1}
	if at < len(lines) {
		if lines[at].EOL != "" {
			nl.EOL = lines[at].EOL
		}
	} else if at > 0 {
		// appended after the last line
		if out[at-1].EOL == "" {
			out[at-1].EOL = "\n"
			nl.EOL = ""
		} else {
			nl.EOL = out[at-1].EOL
		}
	}
	out = append(out, nl)
	out = append(out, lines[at:]...)
	return out
}

func indices(lines []LineInfo, pred func(i int, l LineInfo) bool) []int {
	var out []int
	for i, l := range lines {
		if pred(i, l) {
			out = append(out, i)
		}
	}
	return out
}

func sel[T any](xs []T, i int) T {
	if i < 0 {
		i = -i
	}
	return xs[i%len(xs)]
}

// ApplyFault applies f to the line table of a rendered document. It returns the new table, the
// index (in the new table) of the line on which a left-to-right reader first meets the
// non-conformance introduced by this fault, and whether the operator was applicable.
func ApplyFault(d Doc, l Layout, lines []LineInfo, f Fault) ([]LineInfo, int, bool) {
	isFirstEntry := func(li LineInfo) bool { return li.Role == RoleEntry && li.Entry == 0 }
	entryAt := func(li LineInfo) Entry { return d.Records[li.Rec].Entries[li.Entry] }
	byRole := func(role string) []int {
		return indices(lines, func(_ int, li LineInfo) bool { return li.Role == role })
	}
	replaceValue := func(i int, newValue string) []LineInfo {
		out := clone(lines)
		ind := l.IndentOf(lines[i].Rec)
		old := entryAt(lines[i]).ValueLit()
		out[i].Text = ind + newValue + lines[i].Text[len(ind)+len(old):]
		return out
	}
	entriesOfKind := func(kinds ...string) []int {
		return indices(lines, func(_ int, li LineInfo) bool {
			if li.Role != RoleEntry {
				return false
			}
			for _, k := range kinds {
				if entryAt(li).Kind == k {
					return true
				}
			}
			return false
		})
	}
	switch f.Op {
	case "bad-date":
		c := byRole(RoleHead)
		if len(c) == 0 {
			return nil, 0, false
		}
		i := sel(c, f.Sel)
		out := clone(lines)
		old := d.Records[lines[i].Rec].Date.Lit()
		out[i].Text = sel(badDates, f.Var) + lines[i].Text[len(old):]
		return out, i, true
	case "text-after-headline":
		c := byRole(RoleHead)
		if len(c) == 0 {
			return nil, 0, false
		}
		i := sel(c, f.Sel)
		out := clone(lines)
		out[i].Text += sel([]string{" foo", " x(8h!)", " 1h", " -", " #tag", " 8:00-9:00", "\tfoo", " ("}, f.Var)
		return out, i, true
	case "bad-should-total":
		c := byRole(RoleHead)
		if len(c) == 0 {
			return nil, 0, false
		}
		i := sel(c, f.Sel)
		out := clone(lines)
		out[i].Text = d.Records[lines[i].Rec].Date.Lit() + " " + sel(badShoulds, f.Var)
		return out, i, true
	case "glued-should-total":
		// the should-total MUST be separated from the date by a space
		c := byRole(RoleHead)
		if len(c) == 0 {
			return nil, 0, false
		}
		i := sel(c, f.Sel)
		out := clone(lines)
		r := d.Records[lines[i].Rec]
		st := "(8h!)"
		if r.Should != nil {
			st = "(" + r.Should.Lit + "!)"
		}
		out[i].Text = r.Date.Lit() + sel([]string{"", "", ".", "_"}, f.Var) + st
		return out, i, true
	case "missing-blank-between-records":
		// a record that has entries is directly followed by the next headline
		c := indices(lines, func(i int, li LineInfo) bool {
			return li.Role == RoleHead && li.Rec > 0 && len(d.Records[li.Rec-1].Entries) > 0
		})
		if len(c) == 0 {
			return nil, 0, false
		}
		i := sel(c, f.Sel)
		// remove the blank lines in front of headline i
		start := i
		for start > 0 && lines[start-1].Role == RoleBlank {
			start--
		}
		out := append(clone(lines[:start]), lines[i:]...)
		return out, start, true
	case "indented-headline":
		c := byRole(RoleHead)
		if len(c) == 0 {
			return nil, 0, false
		}
		i := sel(c, f.Sel)
		out := clone(lines)
		out[i].Text = sel([]string{" ", "  ", "    ", "\t", " "}, f.Var) + out[i].Text
		return out, i, true
	case "rsum-leading-blank":
		c := byRole(RoleRSum)
		if len(c) == 0 {
			return nil, 0, false
		}
		i := sel(c, f.Sel)
		out := clone(lines)
		out[i].Text = sel(leadingBlanks, f.Var) + out[i].Text
		return out, i, true
	case "entry-indent-1":
		c := byRole(RoleEntry)
		if len(c) == 0 {
			return nil, 0, false
		}
		i := sel(c, f.Sel)
		out := clone(lines)
		ind := l.IndentOf(lines[i].Rec)
		out[i].Text = " " + lines[i].Text[len(ind):]
		return out, i, true
	case "entry-indent-plus-1":
		c := indices(lines, func(_ int, li LineInfo) bool { return li.Role == RoleEntry && !isFirstEntry(li) })
		if len(c) == 0 {
			return nil, 0, false
		}
		i := sel(c, f.Sel)
		out := clone(lines)
		ind := l.IndentOf(lines[i].Rec)
		out[i].Text = ind + " " + lines[i].Text[len(ind):]
		return out, i, true
	case "indent-style-switch":
		c := indices(lines, func(_ int, li LineInfo) bool { return li.Role == RoleEntry && !isFirstEntry(li) })
		if len(c) == 0 {
			return nil, 0, false
		}
		i := sel(c, f.Sel)
		ind := l.IndentOf(lines[i].Rec)
		var targets []string
		switch ind {
		case "\t":
			targets = []string{"    ", "   ", "  "}
		case "    ":
			targets = []string{"\t", "   ", "  "}
		case "   ":
			targets = []string{"\t", "  "}
		default:
			targets = []string{"\t"}
		}
		out := clone(lines)
		out[i].Text = sel(targets, f.Var) + lines[i].Text[len(ind):]
		return out, i, true
	case "unindented-entry":
		c := indices(lines, func(_ int, li LineInfo) bool { return li.Role == RoleEntry && !isFirstEntry(li) })
		if len(c) == 0 {
			return nil, 0, false
		}
		i := sel(c, f.Sel)
		out := clone(lines)
		out[i].Text = lines[i].Text[len(l.IndentOf(lines[i].Rec)):]
		return out, i, true
	case "bad-time":
		c := entriesOfKind(KRange, KOpen)
		if len(c) == 0 {
			return nil, 0, false
		}
		i := sel(c, f.Sel)
		e := entryAt(lines[i])
		bad := sel(badTimes, f.Var)
		v := ""
		if e.Kind == KOpen || f.Var%2 == 0 {
			v = bad + e.ValueLit()[len(e.Start.Lit):]
		} else {
			v = e.Start.Lit + e.DashL + "-" + e.DashR + bad
		}
		return replaceValue(i, v), i, true
	case "bad-duration":
		c := entriesOfKind(KDuration)
		if len(c) == 0 {
			return nil, 0, false
		}
		i := sel(c, f.Sel)
		return replaceValue(i, sel(badDurations, f.Var)), i, true
	case "range-missing-end":
		c := entriesOfKind(KRange, KOpen)
		if len(c) == 0 {
			return nil, 0, false
		}
		i := sel(c, f.Sel)
		e := entryAt(lines[i])
		v := sel([]string{e.Start.Lit + " -", e.Start.Lit + "-", e.Start.Lit, e.Start.Lit + " - ", "- " + e.Start.Lit, "-" + e.Start.Lit}, f.Var)
		out := clone(lines)
		out[i].Text = l.IndentOf(lines[i].Rec) + v // drop the summary: it could complete the entry
		return out, i, true
	case "range-bad-dash":
		c := entriesOfKind(KRange, KOpen)
		if len(c) == 0 {
			return nil, 0, false
		}
		i := sel(c, f.Sel)
		e := entryAt(lines[i])
		end := e.End.Lit
		if e.Kind == KOpen {
			end = strings.Repeat("?", e.QMarks)
		}
		v := e.Start.Lit + sel([]string{" – ", "\t-\t", " — ", " -- ", " to ", "\t- ", " _ ", "–"}, f.Var) + end
		return replaceValue(i, v), i, true
	case "range-glued-garbage":
		c := entriesOfKind(KRange, KOpen)
		if len(c) == 0 {
			return nil, 0, false
		}
		i := sel(c, f.Sel)
		e := entryAt(lines[i])
		return replaceValue(i, e.ValueLit()+sel([]string{"x", "!", ">>", "?x", "-", "#tag", ",", ";"}, f.Var)), i, true
	case "reversed-range":
		c := entriesOfKind(KRange)
		if len(c) == 0 {
			return nil, 0, false
		}
		i := sel(c, f.Sel)
		return replaceValue(i, sel(reversedRanges, f.Var)), i, true
	case "shifted-placeholder":
		c := entriesOfKind(KOpen)
		if len(c) == 0 {
			return nil, 0, false
		}
		i := sel(c, f.Sel)
		e := entryAt(lines[i])
		v := e.Start.Lit + e.DashL + "-" + e.DashR + sel([]string{"?>", "<?", "??>", "<??", "?am", "?:??"}, f.Var)
		return replaceValue(i, v), i, true
	case "second-open-range":
		c := byRole(RoleHead)
		if len(c) == 0 {
			return nil, 0, false
		}
		hi := sel(c, f.Sel)
		rec := lines[hi].Rec
		// insertion point: after the last line of the record
		at := hi + 1
		for at < len(lines) && lines[at].Rec == rec && lines[at].Role != RoleBlank {
			at++
		}
		ind := l.IndentOf(rec)
		out := lines
		n := 1
		if d.Records[rec].OpenIndex() < 0 {
			n = 2
		}
		for k := 0; k < n; k++ {
			out = insertAt(out, at+k, ind+sel([]string{"9:00 - ?", "9:00-?", "<23:00 - ???", "1:00pm - ? again"}, f.Var+k))
		}
		manifest := at + n - 1
		if f.Var%3 == 2 {
			// the duplicate carries a multi-line summary
			out = insertAt(out, at+n, ind+ind+"more text")
			if f.Var%2 == 0 {
				out = insertAt(out, at+n+1, ind+ind+"and more")
			}
		}
		return out, manifest, true
	case "range-turned-open":
		// turn a range into an open range in a record that then has two open ranges; the entry keeps
		// its (possibly multi-line) summary
		type cand struct{ line, manifest int }
		var cs []cand
		for i, li := range lines {
			if li.Role != RoleEntry || entryAt(li).Kind != KRange {
				continue
			}
			r := d.Records[li.Rec]
			oi := r.OpenIndex()
			if oi < 0 {
				continue
			}
			// line of the existing open range
			openLine := -1
			for j, lj := range lines {
				if lj.Role == RoleEntry && lj.Rec == li.Rec && lj.Entry == oi {
					openLine = j
				}
			}
			if openLine < 0 {
				continue
			}
			m := i
			if openLine > i {
				m = openLine
			}
			cs = append(cs, cand{i, m})
		}
		if len(cs) == 0 {
			return nil, 0, false
		}
		c := sel(cs, f.Sel)
		e := entryAt(lines[c.line])
		v := e.Start.Lit + e.DashL + "-" + e.DashR + sel([]string{"?", "??", "?????"}, f.Var)
		return replaceValue(c.line, v), c.manifest, true
	case "blank-line-inside-record":
		c := indices(lines, func(_ int, li LineInfo) bool { return li.Role == RoleEntry || li.Role == RoleECont })
		if len(c) == 0 {
			return nil, 0, false
		}
		i := sel(c, f.Sel)
		out := insertAt(lines, i, sel([]string{"", "", " ", "\t", "    "}, f.Var))
		return out, i + 1, true
	case "stray-prose-block":
		c := byRole(RoleHead)
		at := len(lines)
		if len(c) > 0 && f.Var%3 != 0 {
			at = sel(c, f.Sel)
		}
		prose := sel([]string{"Hello world", "TODO", "foo 2020-01-01", "# heading", "1h", "--", "2020-01-01T00:00"}, f.Var)
		out := lines
		if at == len(lines) {
			// append: blank line, then the prose
			if len(lines) > 0 {
				out = insertAt(out, len(out), "")
			}
			out = insertAt(out, len(out), prose)
			return out, len(out) - 1, true
		}
		out = insertAt(out, at, "")
		out = insertAt(out, at, prose)
		return out, at, true
	case "blank-only-continuation":
		c := byRole(RoleECont)
		if len(c) == 0 {
			return nil, 0, false
		}
		i := sel(c, f.Sel)
		out := clone(lines)
		ind := l.IndentOf(lines[i].Rec)
		out[i].Text = ind + ind + sel([]string{" ", "　", "  ", "  ", " \t"}, f.Var)
		return out, i, true
	case "double-indent-first":
		c := indices(lines, func(i int, li LineInfo) bool {
			// a head or record-summary line that is directly followed by something other than a summary line
			if li.Role != RoleHead && li.Role != RoleRSum {
				return false
			}
			return i+1 >= len(lines) || lines[i+1].Role != RoleRSum
		})
		if len(c) == 0 {
			return nil, 0, false
		}
		i := sel(c, f.Sel)
		ind := l.IndentOf(lines[i].Rec)
		out := insertAt(lines, i+1, ind+ind+sel([]string{"prose text", "hello", "n/a"}, f.Var))
		return out, i + 1, true
	}
	return nil, 0, false
}

func TextOf(lines []LineInfo) string {
	var sb strings.Builder
	for _, l := range lines {
		sb.WriteString(l.Text)
		sb.WriteString(l.EOL)
	}
	return sb.String()
}
