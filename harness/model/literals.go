package model

import (
	"errors"
	"math"
)

// Hand-written scanners for the literals of the specification (no regexp).

func isDigit(b byte) bool { return b >= '0' && b <= '9' }

// ScanDate recognises `YYYY-MM-DD` / `YYYY/MM/DD` (no mixed separators, Gregorian-valid).
func ScanDate(s string) (Date, bool) {
	if len(s) != 10 {
		return Date{}, false
	}
	for i := 0; i < 10; i++ {
		if i == 4 || i == 7 {
			continue
		}
		if !isDigit(s[i]) {
			return Date{}, false
		}
	}
	if (s[4] != '-' && s[4] != '/') || s[7] != s[4] {
		return Date{}, false
	}
	y := int(s[0]-'0')*1000 + int(s[1]-'0')*100 + int(s[2]-'0')*10 + int(s[3]-'0')
	m := int(s[5]-'0')*10 + int(s[6]-'0')
	d := int(s[8]-'0')*10 + int(s[9]-'0')
	if !ValidDate(y, m, d) {
		return Date{}, false
	}
	return Date{y, m, d, s[4] == '/'}, true
}

// ScanTime recognises a time literal and returns its value relative to the record's date.
func ScanTime(s string) (Time, bool) {
	orig := s
	shift := 0
	if len(s) > 0 && s[0] == '<' {
		shift = -1
		s = s[1:]
	}
	if len(s) > 0 && s[len(s)-1] == '>' {
		if shift != 0 {
			return Time{}, false
		}
		shift = 1
		s = s[:len(s)-1]
	}
	is12, pm := false, false
	if len(s) >= 2 && (s[len(s)-2:] == "am" || s[len(s)-2:] == "pm") {
		is12 = true
		pm = s[len(s)-2] == 'p'
		s = s[:len(s)-2]
	}
	// H:MM or HH:MM
	colon := -1
	for i := 0; i < len(s); i++ {
		if s[i] == ':' {
			colon = i
			break
		}
	}
	if colon != 1 && colon != 2 {
		return Time{}, false
	}
	if len(s)-colon-1 != 2 {
		return Time{}, false
	}
	h := 0
	for i := 0; i < colon; i++ {
		if !isDigit(s[i]) {
			return Time{}, false
		}
		h = h*10 + int(s[i]-'0')
	}
	if !isDigit(s[colon+1]) || !isDigit(s[colon+2]) {
		return Time{}, false
	}
	m := int(s[colon+1]-'0')*10 + int(s[colon+2]-'0')
	if m > 59 {
		return Time{}, false
	}
	if is12 {
		if h < 1 || h > 12 {
			return Time{}, false
		}
		if h == 12 {
			h = 0
		}
		if pm {
			h += 12
		}
	} else {
		if h > 24 {
			return Time{}, false
		}
		if h == 24 {
			if m != 0 || shift > 0 {
				return Time{}, false // 24:01 and 24:00> must not appear
			}
		}
	}
	off := shift*1440 + h*60 + m
	return Time{Off: off, Is12h: is12, Lit: orig}, true
}

// ScanDuration recognises a duration literal. fits reports whether the value is representable
// in 63 bits (in minutes); if it is not, Mins is meaningless.
func ScanDuration(s string) (d Duration, ok bool, fits bool) {
	orig := s
	sign := 1
	signed := false
	if len(s) > 0 && (s[0] == '+' || s[0] == '-') {
		signed = true
		if s[0] == '-' {
			sign = -1
		}
		s = s[1:]
	}
	fits = true
	readNum := func() (int64, bool) {
		i := 0
		var v int64
		for i < len(s) && isDigit(s[i]) {
			dgt := int64(s[i] - '0')
			if v > (math.MaxInt64-dgt)/10 {
				fits = false
				v = 0
			} else {
				v = v*10 + dgt
			}
			i++
		}
		if i == 0 {
			return 0, false
		}
		s = s[i:]
		return v, true
	}
	var hours, mins int64
	hasH, hasM := false, false
	n, got := readNum()
	if !got || len(s) == 0 {
		return Duration{}, false, false
	}
	switch s[0] {
	case 'h':
		hasH = true
		hours = n
		s = s[1:]
		if len(s) > 0 {
			n2, got2 := readNum()
			if !got2 || len(s) != 1 || s[0] != 'm' {
				return Duration{}, false, false
			}
			hasM = true
			mins = n2
			s = s[1:]
		}
	case 'm':
		hasM = true
		mins = n
		s = s[1:]
	default:
		return Duration{}, false, false
	}
	if len(s) != 0 {
		return Duration{}, false, false
	}
	if hasH && hasM && (mins > 59 || !fits) {
		if fits || true {
			// with an hour part the minute part must not exceed 59
			if !fits {
				// cannot decide the minute bound for an unrepresentable number: treat like klog's domain limit
				return Duration{Lit: orig}, true, false
			}
			return Duration{}, false, false
		}
	}
	if !fits {
		return Duration{Lit: orig}, true, false
	}
	if hours > (math.MaxInt64-mins)/60 {
		return Duration{Lit: orig}, true, false
	}
	total := hours*60 + mins
	d = Duration{Mins: int(total) * sign, Lit: orig}
	if signed && sign > 0 {
		d.Plus = true
	}
	if total == 0 && signed {
		d.ZeroSign = sign
	}
	return d, true, true
}

// ParseDurationValue reads a duration as printed by klog (`1h30m`, `-5m`, `+2h`, `0m`).
func ParseDurationValue(s string) (int, error) {
	d, ok, fits := ScanDuration(s)
	if !ok || !fits {
		return 0, errors.New("not a duration: " + s)
	}
	return d.Mins, nil
}
