// Package gen contains the rapid generators shared by the property checks.
// Every generator is constructive: it only builds values of the wanted class.
package gen

import (
	"fmt"
	"strings"

	"pgregory.net/rapid"
	"verifharness/model"
)

// Opts switches classes of generated content on or off.
type Opts struct {
	MaxRecords     int  // typical upper bound (default 6)
	AllowMany      bool // occasionally 13–60 records
	Controls       bool // control characters (NUL, ESC, lone CR inside a line …) in summaries
	InvalidUTF8    bool // invalid UTF-8 bytes in summaries
	BigDurations   bool // durations up to 10^9 hours
	NoOpen         bool // never generate open ranges
	SortedDates    int  // 0 = any order, 1 = ascending, 2 = strictly ascending (unique)
	NearDay        int  // if != 0: dates cluster around this day number
	NearSpan       int  // cluster radius in days (default 3)
	KeepTrailingCR bool // do not strip lone CRs at the end of summary lines
	TabSeparators  bool // occasionally a tab between entry value and summary (accepted by klog)
	PlainSummary   bool // ASCII-only summaries without tags
	NoSummary      bool
	MaxEntries     int // default 5
}

func (o Opts) maxRecords() int {
	if o.MaxRecords == 0 {
		return 6
	}
	return o.MaxRecords
}

// ---------- dates ----------

var boundaryYears = []int{0, 1, 1582, 1900, 1970, 1999, 2000, 2020, 2023, 2024, 2100, 9998, 9999}

func Day(t *rapid.T, label string) int {
	switch rapid.IntRange(0, 10).Draw(t, label+"Class") {
	case 10: // end of February in century years (leap-rule exceptions) and other leap years
		y := rapid.SampledFrom([]int{0, 100, 400, 1700, 1800, 1900, 2000, 2100, 2200, 2300, 2400, 9900, 2024, 2023, 1600}).Draw(t, label+"CY")
		return clampDay(model.DaysFromCivil(y, 3, 1) + rapid.IntRange(-3, 1).Draw(t, label+"CD"))
	case 0: // uniform over everything
		return rapid.IntRange(model.MinDay, model.MaxDay).Draw(t, label)
	case 1: // boundary years, around new year
		y := rapid.SampledFrom(boundaryYears).Draw(t, label+"Y")
		z := model.DaysFromCivil(y, 1, 1) + rapid.IntRange(-8, 8).Draw(t, label+"D")
		if rapid.Bool().Draw(t, label+"End") {
			z = model.DaysFromCivil(y, 12, 31) + rapid.IntRange(-8, 8).Draw(t, label+"D2")
		}
		return clampDay(z)
	case 2: // month/quarter ends, leap days
		y := rapid.IntRange(1990, 2040).Draw(t, label+"Y")
		m := rapid.IntRange(1, 12).Draw(t, label+"M")
		z := model.DaysFromCivil(y, m, model.DaysInMonth(y, m)) + rapid.IntRange(-1, 1).Draw(t, label+"D")
		return clampDay(z)
	default: // "ordinary" dates
		return rapid.IntRange(model.DaysFromCivil(2015, 1, 1), model.DaysFromCivil(2030, 12, 31)).Draw(t, label)
	}
}

func clampDay(z int) int {
	if z < model.MinDay {
		return model.MinDay
	}
	if z > model.MaxDay {
		return model.MaxDay
	}
	return z
}

// ---------- times ----------

// TimeLit draws a spelling for the time value off.
func TimeLit(t *rapid.T, off int, label string) model.Time {
	tm := model.Time{Off: off}
	h, m := tm.Hour(), tm.Minute()
	pre, suf := "", ""
	if tm.Shift() < 0 {
		pre = "<"
	} else if tm.Shift() > 0 {
		suf = ">"
	}
	style := rapid.IntRange(0, 9).Draw(t, label+"Style")
	switch {
	case style == 0 && off == 1440:
		tm.Lit = "24:00"
	case style == 0 && off == 0:
		tm.Lit = "<24:00"
	case style <= 1 && off%1440 == 0 && off != 0 && off != 1440 && off != -1440:
		tm.Lit = model.CanonTime(off, false)
	case style == 2 || style == 3: // 12-hour clock
		tm.Is12h = true
		ap := "am"
		if h >= 12 {
			ap = "pm"
		}
		h12 := h % 12
		if h12 == 0 {
			h12 = 12
		}
		pad := ""
		if h12 < 10 && style == 3 {
			pad = "0"
		}
		tm.Lit = fmt.Sprintf("%s%s%d:%02d%s%s", pre, pad, h12, m, ap, suf)
	case style == 4 && h < 10: // padded hour
		tm.Lit = fmt.Sprintf("%s0%d:%02d%s", pre, h, m, suf)
	default:
		tm.Lit = model.CanonTime(off, false)
	}
	return tm
}

var specialOffs = []int{-1440, -1, 0, 1, 59, 60, 719, 720, 721, 779, 780, 1439, 1440, 1441, 2160, 2879}

func Off(t *rapid.T, lo, hi int, label string) int {
	if rapid.IntRange(0, 3).Draw(t, label+"Sp") == 0 {
		var cands []int
		for _, s := range specialOffs {
			if s >= lo && s <= hi {
				cands = append(cands, s)
			}
		}
		if len(cands) > 0 {
			return rapid.SampledFrom(cands).Draw(t, label)
		}
	}
	if rapid.Bool().Draw(t, label+"Today") && lo <= 0 && hi >= 1439 {
		return rapid.IntRange(0, 1439).Draw(t, label)
	}
	return rapid.IntRange(lo, hi).Draw(t, label)
}

// ---------- durations ----------

func zeros(t *rapid.T, label string) string {
	return rapid.SampledFrom([]string{"", "", "", "0", "00"}).Draw(t, label)
}

// DurationLit draws a spelling for a duration of mins minutes.
func DurationLit(t *rapid.T, mins int, label string) model.Duration {
	d := model.Duration{Mins: mins}
	sign := ""
	a := mins
	switch {
	case mins < 0:
		sign = "-"
		a = -mins
	case mins > 0:
		if rapid.IntRange(0, 4).Draw(t, label+"Plus") == 0 {
			sign = "+"
			d.Plus = true
		}
	default:
		switch rapid.IntRange(0, 4).Draw(t, label+"ZeroSign") {
		case 0:
			sign, d.ZeroSign, d.Plus = "+", 1, true
		case 1:
			sign, d.ZeroSign = "-", -1
		}
	}
	h, m := a/60, a%60
	form := rapid.IntRange(0, 5).Draw(t, label+"Form")
	body := ""
	switch {
	case form == 0: // minutes only
		body = fmt.Sprintf("%s%dm", zeros(t, label+"Z1"), a)
	case form == 1 && m == 0: // hours only
		body = fmt.Sprintf("%s%dh", zeros(t, label+"Z2"), h)
	case form == 2: // both parts, even when zero
		body = fmt.Sprintf("%s%dh%s%dm", zeros(t, label+"Z3"), h, zeros(t, label+"Z4"), m)
	default: // canonical
		body = model.CanonDuration(a, false, 0)
	}
	d.Lit = sign + body
	return d
}

func DurationMins(t *rapid.T, o Opts, label string) int {
	switch rapid.IntRange(0, 11).Draw(t, label+"Class") {
	case 0:
		return 0
	case 1, 2:
		return -rapid.IntRange(1, 600).Draw(t, label)
	case 3:
		if o.BigDurations {
			return rapid.IntRange(-60_000_000_000, 60_000_000_000).Draw(t, label)
		}
		return rapid.IntRange(-100000, 100000).Draw(t, label)
	case 4:
		return rapid.SampledFrom([]int{1, 59, 60, 61, 119, 120, 1439, 1440, 1441, -1, -59, -60, -61}).Draw(t, label)
	default:
		return rapid.IntRange(1, 720).Draw(t, label)
	}
}

// ---------- summaries ----------

var asciiWords = []string{"foo", "bar", "Lunch", "break", "meeting", "with", "Liz", "work", "a", "I", "e-mail", "x_y", "Did", "something", "today.", "(urgent)", "50%", "A&B", "\"quoted\"", "it's", "<b>", "$1", "back\\slash", "end;"}
var uniWords = []string{"über", "naïve", "日本語", "読む", "Привет", "καλημέρα", "🙂", "é", "İstanbul", "ǅ", "a b", "x\u3000y", "\ufffd", "a\ufffdb", " ", "ẞ"}
var lookalikes = []string{"1h", "30m", "15m", "5m", "59m", "05m", "-5m", "+2h30m", "8:00", "8:00 - 9:00", "8:00-?", "2020-01-01", "2020/01/01", "(8h!)", "?", "???", "-", "- 9:00", "<23:00", "1:00>", "12:00am", "!", "()", "24:00", "0m"}
var tagWords = []string{"#tag", "#Tag", "#TAG", "#work", "#home-office", "#a_b", "#読む", "#ü", "#1", "#tag=v", "#tag=V", "#tag=1-2", "#tag=\"a b\"", "#tag='a b'", "#tag=\"it's\"", "#tag='say \"hi\"'", "#tag=", "#tag=\"\"", "#tag=\"open", "#tag='open", "#a#b", "##c", "#x=y=z", "#work,", "(#work)", "#ticket=891", "#project=\"22/48.3\"", "#Ä=ö", "#Straße", "#STRASSE", "#ẞ", "#ß", "#e\u0301", "#😀", "#tag=😀", "#İ", "#i", "#ǅ", "#１２", "#tag=１", "#call=\"'Liz'\"", "#call=Liz", "#call='\"Liz\"'", "#size='5\"'", "#who=\"'\""}
var controlWords = []string{"\x00", "\x1b[31mred\x1b[0m", "a\rb", "\x07", "\x7f", "\u0085", "\ufeff", "\u200b", "\x1b", "cr\r"}
var invalidWords = []string{"\xff", "\xc3", "a\xe6\x97", "\xf0\x9f\x99", "\xc0\xaf", "\xed\xa0\x80", "ok\xfe"}

func word(t *rapid.T, o Opts, label string) string {
	if o.PlainSummary {
		return rapid.SampledFrom(asciiWords[:12]).Draw(t, label)
	}
	c := rapid.IntRange(0, 19).Draw(t, label+"Class")
	switch {
	case c < 6:
		return rapid.SampledFrom(asciiWords).Draw(t, label)
	case c < 10:
		return rapid.SampledFrom(tagWords).Draw(t, label)
	case c < 13:
		return rapid.SampledFrom(uniWords).Draw(t, label)
	case c < 16:
		return rapid.SampledFrom(lookalikes).Draw(t, label)
	case c == 16 && o.Controls:
		return rapid.SampledFrom(controlWords).Draw(t, label)
	case c == 17 && o.InvalidUTF8:
		return rapid.SampledFrom(invalidWords).Draw(t, label)
	case c == 18:
		return rapid.StringMatching(`[a-zA-Z0-9#=_'" .:-]{1,8}`).Draw(t, label)
	}
	return rapid.SampledFrom(asciiWords).Draw(t, label)
}

// text draws a line of 1..n words; it never contains LF. It may end in a lone CR (class
// Controls only); see StripTrailingCR.
func text(t *rapid.T, o Opts, label string) string {
	n := rapid.IntRange(1, 5).Draw(t, label+"N")
	var sb strings.Builder
	for i := 0; i < n; i++ {
		if i > 0 {
			sb.WriteString(rapid.SampledFrom([]string{" ", " ", " ", " ", "  ", "\t", ", "}).Draw(t, label+"Sep"))
		}
		sb.WriteString(word(t, o, label+"W"))
	}
	out := strings.ReplaceAll(sb.String(), "\n", " ")
	if rapid.IntRange(0, 59).Draw(t, label+"Long") == 0 {
		// a very long line (more than 200 characters)
		out = strings.Repeat(out+" ", rapid.IntRange(20, 60).Draw(t, label+"LongN"))
		out = strings.TrimRight(out, " ") + "."
	}
	return out
}

// RecordSummaryLine: non-empty, does not start with a blank character (tab or Zs).
func RecordSummaryLine(t *rapid.T, o Opts, label string) string {
	s := text(t, o, label)
	for len(s) > 0 && model.StartsWithBlank(s) {
		s = "x" + s
	}
	if rapid.IntRange(0, 7).Draw(t, label+"Trail") == 0 {
		s += rapid.SampledFrom([]string{" ", "  ", "\t"}).Draw(t, label+"TrailS")
	}
	return s
}

// EntrySummaryFirst: any text (may start or end with blanks).
func EntrySummaryFirst(t *rapid.T, o Opts, label string) string {
	s := text(t, o, label)
	switch rapid.IntRange(0, 11).Draw(t, label+"Pad") {
	case 0:
		s = " " + s
	case 1:
		s = "\t" + s
	case 2:
		s += " "
	case 3:
		s = "  " + s + "  "
	}
	return s
}

// EntrySummaryCont: not only blank characters; may start with blanks (alignment).
func EntrySummaryCont(t *rapid.T, o Opts, label string) string {
	s := text(t, o, label)
	if model.AllBlank(s) {
		s = "x" + s
	}
	switch rapid.IntRange(0, 7).Draw(t, label+"Pad") {
	case 0:
		s = " " + s
	case 1:
		s = "\t" + s
	case 2:
		s = "    " + s
	case 3:
		s += " "
	}
	return s
}

func EntrySummary(t *rapid.T, o Opts, label string) []model.Text {
	if o.NoSummary {
		return model.Texts("")
	}
	var out []model.Text
	switch rapid.IntRange(0, 9).Draw(t, label+"Shape") {
	case 0, 1, 2: // none
		return model.Texts("")
	case 3: // starts on the next line
		out = append(out, "")
	default:
		out = append(out, model.Text(EntrySummaryFirst(t, o, label+"First")))
	}
	n := rapid.IntRange(0, 2).Draw(t, label+"More")
	if rapid.IntRange(0, 29).Draw(t, label+"ManyLines") == 0 {
		n = rapid.IntRange(3, 6).Draw(t, label+"MoreMany")
	}
	if len(out) == 1 && out[0] == "" && n == 0 {
		n = 1
	}
	for i := 0; i < n; i++ {
		out = append(out, model.Text(EntrySummaryCont(t, o, label+"Cont")))
	}
	return out
}

// ---------- entries, records, documents ----------

func dash(t *rapid.T, label string) (string, string) {
	switch rapid.IntRange(0, 9).Draw(t, label) {
	case 0, 1:
		return "", ""
	case 2:
		return "  ", "  "
	case 3:
		return " ", ""
	case 4:
		return "", " "
	case 5:
		return "   ", " "
	}
	return " ", " "
}

func Entry(t *rapid.T, o Opts, allowOpen bool, label string) model.Entry {
	e := model.Entry{}
	k := rapid.IntRange(0, 9).Draw(t, label+"Kind")
	switch {
	case k < 4:
		e.Kind = model.KDuration
		e.Dur = DurationLit(t, DurationMins(t, o, label+"Mins"), label+"Dur")
	case k < 8 || !allowOpen || o.NoOpen:
		e.Kind = model.KRange
		a := Off(t, -1440, 2879, label+"Start")
		b := Off(t, a, 2879, label+"End")
		if rapid.IntRange(0, 5).Draw(t, label+"Eq") == 0 {
			b = a
		}
		e.Start = TimeLit(t, a, label+"StartLit")
		e.End = TimeLit(t, b, label+"EndLit")
		e.DashL, e.DashR = dash(t, label+"Dash")
	default:
		e.Kind = model.KOpen
		e.Start = TimeLit(t, Off(t, -1440, 2879, label+"Start"), label+"StartLit")
		e.DashL, e.DashR = dash(t, label+"Dash")
		e.QMarks = rapid.SampledFrom([]int{1, 1, 1, 1, 2, 3, 5, 7}).Draw(t, label+"Q")
	}
	e.Summary = EntrySummary(t, o, label+"Sum")
	if o.TabSeparators && e.Summary[0] != "" && rapid.IntRange(0, 7).Draw(t, label+"TabSep") == 0 {
		e.Sep = "\t"
	}
	return e
}

func Record(t *rapid.T, o Opts, day int, label string) model.Record {
	r := model.Record{Date: model.DateOfDays(day, rapid.IntRange(0, 3).Draw(t, label+"Slash") == 0)}
	if rapid.IntRange(0, 2).Draw(t, label+"HasShould") == 0 {
		d := DurationLit(t, DurationMins(t, o, label+"ShouldMins"), label+"Should")
		r.Should = &d
		r.HeadGap = rapid.SampledFrom([]string{" ", " ", " ", "  ", "    "}).Draw(t, label+"Gap")
	}
	if !o.NoSummary {
		for i, n := 0, rapid.SampledFrom([]int{0, 0, 0, 1, 1, 2, 3, 0, 1, 0, 1, 2, 6}).Draw(t, label+"NSum"); i < n; i++ {
			r.Summary = append(r.Summary, model.Text(RecordSummaryLine(t, o, label+"RSum")))
		}
	}
	maxE := o.MaxEntries
	if maxE == 0 {
		maxE = 5
	}
	n := rapid.IntRange(0, maxE).Draw(t, label+"NEntries")
	if o.MaxEntries == 0 && rapid.IntRange(0, 49).Draw(t, label+"ManyEntries") == 0 {
		n = rapid.IntRange(41, 60).Draw(t, label+"NEntriesMany")
	}
	hasOpen := false
	for i := 0; i < n; i++ {
		e := Entry(t, o, !hasOpen, label+"E")
		if e.Kind == model.KOpen {
			hasOpen = true
		}
		r.Entries = append(r.Entries, e)
	}
	return r
}

func Days(t *rapid.T, o Opts, n int) []int {
	days := make([]int, n)
	if n == 0 {
		return days
	}
	mode := rapid.IntRange(0, 5).Draw(t, "dayMode")
	base := o.NearDay
	span := o.NearSpan
	if span == 0 {
		span = 3
	}
	if base == 0 && o.NearSpan != 0 {
		base = 1 // day number 0 (1970-01-01) is a legitimate cluster centre, not "unset"
	}
	if base == 0 && mode <= 2 {
		base = Day(t, "baseDay")
		if mode == 2 {
			span = 400
		}
	}
	for i := range days {
		if base != 0 {
			days[i] = clampDay(base + rapid.IntRange(-span, span).Draw(t, "dayDelta"))
		} else {
			days[i] = Day(t, "day")
		}
	}
	order := o.SortedDates
	if order == 0 {
		order = rapid.SampledFrom([]int{0, 0, 1, 1, 3}).Draw(t, "dayOrder")
	}
	switch order {
	case 1, 2:
		sortInts(days)
		if order == 2 {
			for i := 1; i < len(days); i++ {
				if days[i] <= days[i-1] {
					days[i] = days[i-1] + 1
				}
			}
			for i := range days {
				days[i] = clampDay(days[i])
			}
		}
	case 3:
		sortInts(days)
		for i, j := 0, len(days)-1; i < j; i, j = i+1, j-1 {
			days[i], days[j] = days[j], days[i]
		}
	}
	return days
}

func sortInts(a []int) {
	for i := 1; i < len(a); i++ {
		for j := i; j > 0 && a[j] < a[j-1]; j-- {
			a[j], a[j-1] = a[j-1], a[j]
		}
	}
}

func Doc(t *rapid.T, o Opts) model.Doc {
	n := rapid.IntRange(1, o.maxRecords()).Draw(t, "nRecords")
	if rapid.IntRange(0, 29).Draw(t, "empty") == 17 {
		n = 0
	}
	if o.AllowMany && rapid.IntRange(0, 24).Draw(t, "many") == 0 {
		n = rapid.IntRange(13, 60).Draw(t, "nRecordsMany")
	}
	days := Days(t, o, n)
	d := model.Doc{}
	for i := 0; i < n; i++ {
		d.Records = append(d.Records, Record(t, o, days[i], "r"))
	}
	if !o.KeepTrailingCR {
		TrailingCRExcluded += int64(StripTrailingCR(&d))
	}
	return d
}

// TrailingCRExcluded counts the summary lines from which a trailing CR was stripped.
var TrailingCRExcluded int64

// ---------- layout ----------

var indents = []string{"    ", "   ", "  ", "\t"}
var blankTexts = []string{"", "", "", "", " ", "  ", "\t", "    ", " \t ", "\t\t"}

func Layout(t *rapid.T, nRecords int) model.Layout {
	l := model.Layout{}
	switch rapid.IntRange(0, 3).Draw(t, "indentMode") {
	case 0: // canonical
	case 1:
		l.Indent = []string{rapid.SampledFrom(indents).Draw(t, "indent")}
	default:
		for i := 0; i < nRecords && i < 8; i++ {
			l.Indent = append(l.Indent, rapid.SampledFrom(indents).Draw(t, "indentI"))
		}
	}
	l.EOLMode = rapid.SampledFrom([]int{0, 0, 0, 1, 1, 2, 3}).Draw(t, "eolMode")
	if l.EOLMode >= 2 {
		l.EOLBits = rapid.SliceOfN(rapid.Bool(), 1, 9).Draw(t, "eolBits")
	}
	l.FinalEOL = rapid.IntRange(0, 3).Draw(t, "finalEOL") != 0
	if rapid.IntRange(0, 2).Draw(t, "blankMode") != 0 {
		for i := 0; i <= nRecords && i < 10; i++ {
			var run []string
			k := rapid.SampledFrom([]int{0, 1, 1, 1, 2, 3}).Draw(t, "blankRun")
			if i == 0 || i == nRecords {
				k = rapid.SampledFrom([]int{0, 0, 0, 1, 2, 3}).Draw(t, "blankEdge")
			}
			run = []string{}
			for j := 0; j < k; j++ {
				run = append(run, rapid.SampledFrom(blankTexts).Draw(t, "blankText"))
			}
			l.Blanks = append(l.Blanks, run)
		}
	}
	return l
}

// IsCanonicalLayout tells whether the layout/spellings deviate from the canonical form.
func NonCanonical(d model.Doc, l model.Layout) bool {
	text, _ := model.Render(d, l)
	return text != model.CanonRender(d)
}

// StripTrailingCR removes lone carriage returns from the end of summary lines and reports how
// many lines were affected. A line ending in CR cannot be written in an LF file at all (the CR
// would be read as part of a CRLF ending) and does not survive `klog print` in a CRLF file
// (known finding F10), so the class is excluded by construction and counted.
func StripTrailingCR(d *model.Doc) int {
	n := 0
	fix := func(t *model.Text) {
		s := string(*t)
		if strings.HasSuffix(s, "\r") {
			n++
			for strings.HasSuffix(s, "\r") {
				s = s[:len(s)-1]
			}
			if model.AllBlank(s) {
				s += "x"
			}
			*t = model.Text(s)
		}
	}
	for ri := range d.Records {
		for si := range d.Records[ri].Summary {
			fix(&d.Records[ri].Summary[si])
		}
		for ei := range d.Records[ri].Entries {
			for si := range d.Records[ri].Entries[ei].Summary {
				fix(&d.Records[ri].Entries[ei].Summary[si])
			}
		}
	}
	return n
}

// ---------- hostile texts ----------

var hostileTokens = []string{"\r", "\n", "\r\n", " ", "\t", "\xff", "\xe6\x97", "日", "é", "?", "-", ":", "2020-01-01", "\n\n", "    ", "  ", "1h", "-30m",
	"(8h!)", "(", ")", "!", "<", ">", "am", "#tag", "=\"", "\x00", " ", "　", " ", "153722867280912930h", "9223372036854775807m", "\ufeff", "\n\ufeff", "24:00", "8:00", "0:00", " - ", "\n\t", "\n \n", "\r\r\n", "\n\r"}

// HugeNumberTokens are duration literals beyond the representable range (known finding F2).
var HugeNumberTokens = []string{"99999999999999999999h", "9223372036854775808m", "153722867280912931h", "153722867280912930h60m", "-9223372036854775808m"}

// Mutate applies a few byte-level mutations (insert token, delete, duplicate, truncate).
func Mutate(t *rapid.T, text string, label string) string {
	n := rapid.IntRange(1, 4).Draw(t, label+"N")
	for i := 0; i < n; i++ {
		pos := 0
		if len(text) > 0 {
			pos = rapid.IntRange(0, len(text)).Draw(t, label+"Pos")
		}
		switch rapid.IntRange(0, 5).Draw(t, label+"Kind") {
		case 0, 1, 2:
			text = text[:pos] + rapid.SampledFrom(hostileTokens).Draw(t, label+"Tok") + text[pos:]
		case 3:
			end := pos + rapid.IntRange(1, 12).Draw(t, label+"DelLen")
			if end > len(text) {
				end = len(text)
			}
			text = text[:pos] + text[end:]
		case 4:
			end := pos + rapid.IntRange(1, 40).Draw(t, label+"DupLen")
			if end > len(text) {
				end = len(text)
			}
			text = text[:end] + text[pos:end] + text[end:]
		case 5:
			text = text[:pos]
		}
	}
	return text
}

// Soup draws a short text made of hostile tokens only.
func Soup(t *rapid.T, label string) string {
	n := rapid.IntRange(0, 12).Draw(t, label+"N")
	var sb strings.Builder
	for i := 0; i < n; i++ {
		sb.WriteString(rapid.SampledFrom(hostileTokens).Draw(t, label+"Tok"))
	}
	return sb.String()
}

// StyledDoc draws a document with unique ascending dates in which (most) records follow one
// notation style each: date separator, clock convention, dash spacing, placeholder length.
func StyledDoc(t *rapid.T, o Opts) model.Doc {
	o.SortedDates = 2
	d := Doc(t, o)
	for ri := range d.Records {
		r := &d.Records[ri]
		if rapid.IntRange(0, 5).Draw(t, "keepMixedStyle") == 0 {
			continue
		}
		is12 := rapid.Bool().Draw(t, "rec12h")
		dl, dr := dash(t, "recDash")
		q := rapid.SampledFrom([]int{1, 1, 2, 4}).Draw(t, "recQ")
		respell := func(tm model.Time) model.Time {
			if (tm.Off == 1440 && tm.Lit == "24:00") || (tm.Off == 0 && tm.Lit == "<24:00") {
				if !is12 {
					return tm
				}
			}
			return model.Time{Off: tm.Off, Is12h: is12, Lit: model.CanonTime(tm.Off, is12)}
		}
		for ei := range r.Entries {
			e := &r.Entries[ei]
			if e.Kind == model.KDuration {
				continue
			}
			e.Start = respell(e.Start)
			if e.Kind == model.KRange {
				e.End = respell(e.End)
			} else {
				e.QMarks = q
			}
			e.DashL, e.DashR = dl, dr
		}
	}
	return d
}

// PrefixLine inserts an invisible or blank-like character at the very beginning of one line (not
// necessarily the first): byte-order mark, zero-width space, NBSP, NUL, form feed, a lone CR. Code
// that treats "the beginning of the file" or "a blank line" specially must do so consistently
// wherever the line ends up (in another chunk, in a re-parsed carry, after a reconcile).
func PrefixLine(t *rapid.T, text string, label string) string {
	starts := []int{0}
	for i := 0; i < len(text)-1; i++ {
		if text[i] == '\n' {
			starts = append(starts, i+1)
		}
	}
	at := rapid.SampledFrom(starts).Draw(t, label+"At")
	tok := rapid.SampledFrom([]string{"\ufeff", "\ufeff", "\u200b", "\u00a0", "\x00", "\f", "\r", "\v", "\u0085"}).Draw(t, label+"Tok")
	return text[:at] + tok + text[at:]
}
