package gen

import (
	"pgregory.net/rapid"
	"verifharness/model"
)

var cmdWords = []string{"foo", "bar", "Lunch", "#tag", "#Work", "#a=1", "#p=\"x y\"", "über", "日本", "1h", "8:00 - 9:00", "-", "a  b", "(x)", "it's", "100%", "#tag=v", "é", "\\n", "$HOME"}

func cmdText(t *rapid.T, label string) string {
	if rapid.IntRange(0, 9).Draw(t, label+"Tiny") == 0 {
		// one- and two-byte texts: boundary of "is there anything on the line yet" logic
		return rapid.SampledFrom([]string{"a", "x", "-", "?", "#", "1", "é", "ab", "#a", "a.", "日"}).Draw(t, label+"TinyW")
	}
	n := rapid.IntRange(1, 3).Draw(t, label+"N")
	s := ""
	for i := 0; i < n; i++ {
		if i > 0 {
			s += " "
		}
		s += rapid.SampledFrom(cmdWords).Draw(t, label+"W")
	}
	return s
}

// CmdEntrySummary draws a --summary value: first line any text (possibly empty when more lines
// follow), further lines not blank.
func CmdEntrySummary(t *rapid.T, label string) []model.Text {
	var out []model.Text
	switch rapid.IntRange(0, 7).Draw(t, label+"Shape") {
	case 0:
		out = append(out, "", model.Text(cmdText(t, label+"L2")))
	case 1:
		out = append(out, model.Text(cmdText(t, label+"L1")), model.Text(cmdText(t, label+"L2")))
	case 2:
		out = append(out, model.Text(cmdText(t, label+"L1")), model.Text("  "+cmdText(t, label+"L2")), model.Text(cmdText(t, label+"L3")))
	case 3:
		out = append(out, model.Text(" "+cmdText(t, label+"L1")))
	default:
		out = append(out, model.Text(cmdText(t, label+"L1")))
	}
	return out
}

// CmdOpts biases the command generator.
type CmdOpts struct {
	Kinds      []string // allowed kinds (default: all)
	NoPause    bool
	ClockOnly  bool // never pass --time
	NoExplicit bool // never pass --date
}

// Cmd draws a mutating command for a file that denotes d, under env.
func Cmd(t *rapid.T, d model.Doc, env model.Env, o CmdOpts) model.Cmd {
	kinds := o.Kinds
	openDays := []int{}
	for _, r := range d.Records {
		if r.OpenIndex() >= 0 {
			openDays = append(openDays, r.Date.Days())
		}
	}
	hasRecordAt := func(day int) bool {
		for _, r := range d.Records {
			if r.Date.Days() == day {
				return true
			}
		}
		return false
	}
	openAt := func(day int) bool {
		for _, x := range openDays {
			if x == day {
				return true
			}
		}
		return false
	}
	pauseOK := openAt(env.NowDay) || (!hasRecordAt(env.NowDay) && openAt(env.NowDay-1))
	if len(kinds) == 0 {
		kinds = []string{"track", "track", "start", "start", "create", "stop", "switch"}
		if len(openDays) > 0 {
			kinds = append(kinds, "stop", "stop", "switch", "switch")
		}
		if pauseOK {
			kinds = append(kinds, "pause", "pause", "pause")
		} else if !o.NoPause {
			kinds = append(kinds, "pause")
		}
	}
	c := model.Cmd{Kind: rapid.SampledFrom(kinds).Draw(t, "cmdKind")}
	forceTime := false
	// --- date selection
	if (c.Kind == "stop" || c.Kind == "switch") && len(openDays) > 0 && rapid.IntRange(0, 3).Draw(t, "aimAtOpen") != 0 {
		day := rapid.SampledFrom(openDays).Draw(t, "openDay")
		switch {
		case day == env.NowDay:
			c.DateSel = rapid.SampledFrom([]string{"", "today"}).Draw(t, "aimToday")
		case day == env.NowDay-1 && rapid.Bool().Draw(t, "aimYesterdayFlag"):
			c.DateSel = "yesterday"
		case day == env.NowDay-1 && c.Kind == "stop" && !hasRecordAt(env.NowDay):
			c.DateSel = ""
		case day == env.NowDay+1 && rapid.Bool().Draw(t, "aimTomorrowFlag"):
			c.DateSel = "tomorrow"
		default:
			if !o.NoExplicit {
				c.DateSel = "explicit"
				c.Date = model.DateOfDays(day, rapid.IntRange(0, 3).Draw(t, "aimSlash") == 0)
				if day-env.NowDay > 1 || day-env.NowDay < -1 {
					forceTime = rapid.IntRange(0, 5).Draw(t, "aimNoTime") != 0
				}
			}
		}
	} else if c.Kind != "pause" {
		sel := rapid.IntRange(0, 9).Draw(t, "dateSel")
		switch {
		case sel <= 3:
			c.DateSel = rapid.SampledFrom([]string{"", "", "today"}).Draw(t, "dateFlagToday")
		case sel == 4:
			c.DateSel = "yesterday"
		case sel == 5:
			c.DateSel = "tomorrow"
		case o.NoExplicit:
			c.DateSel = ""
		default:
			c.DateSel = "explicit"
			var day int
			if len(d.Records) > 0 && rapid.IntRange(0, 2).Draw(t, "dateExisting") != 0 {
				day = rapid.SampledFrom(d.Records).Draw(t, "dateOfRecord").Date.Days() + rapid.SampledFrom([]int{0, 0, 0, -1, 1}).Draw(t, "dateDelta")
			} else if rapid.IntRange(0, 5).Draw(t, "dateAnywhere") == 0 {
				day = Day(t, "dateAny") // any year 0000-9999, biased to calendar edges
			} else {
				day = env.NowDay + rapid.IntRange(-6, 6).Draw(t, "dateNear")
			}
			c.Date = model.DateOfDays(clampDay(day), rapid.IntRange(0, 3).Draw(t, "dateSlash") == 0)
		}
	}
	target := c.TargetDay(env)
	// the record the command will most likely work on
	var rec *model.Record
	for i := range d.Records {
		if d.Records[i].Date.Days() == target {
			rec = &d.Records[i]
			break
		}
	}
	if rec == nil && (c.Kind == "stop" || c.Kind == "pause") {
		for i := range d.Records {
			if d.Records[i].Date.Days() == target-1 {
				rec = &d.Records[i]
				break
			}
		}
	}
	openStart := -1440
	if rec != nil && rec.OpenIndex() >= 0 {
		openStart = rec.Entries[rec.OpenIndex()].Start.Off
	}
	// --- time selection
	if c.Kind == "start" || c.Kind == "stop" || c.Kind == "switch" {
		if !o.ClockOnly && (forceTime || rapid.Bool().Draw(t, "explicitTime")) {
			lo := -1440
			if c.Kind != "start" && rapid.IntRange(0, 7).Draw(t, "endBeforeStart") != 0 {
				lo = openStart
			}
			tm := TimeLit(t, Off(t, lo, 2879, "cmdTime"), "cmdTimeLit")
			c.Time = &tm
		} else if rapid.IntRange(0, 2).Draw(t, "withRound") == 0 {
			c.Round = rapid.SampledFrom([]int{5, 10, 12, 15, 20, 30, 60}).Draw(t, "round")
		}
	}
	// --- summary
	summaryArgs := func() {
		switch rapid.IntRange(0, 9).Draw(t, "summaryMode") {
		case 0, 1, 2, 3:
			c.Summary = CmdEntrySummary(t, "cmdSum")
		case 4, 5:
			c.Resume = true
		case 6:
			n := 3
			if rec != nil {
				n = len(rec.Entries) + 1
			}
			c.ResumeNth = rapid.IntRange(-n, n).Draw(t, "resumeNth")
		case 7:
			// conflicting flags (rare)
			if rapid.IntRange(0, 3).Draw(t, "conflict") == 0 {
				c.Resume = true
				c.Summary = CmdEntrySummary(t, "cmdSumC")
			}
		}
	}
	switch c.Kind {
	case "track":
		e := Entry(t, Opts{PlainSummary: false, NoSummary: true}, true, "trackE")
		if rapid.IntRange(0, 2).Draw(t, "trackSum") != 0 {
			e.Summary = CmdEntrySummary(t, "trackSumV")
		}
		c.Entry = &e
	case "start", "switch":
		summaryArgs()
	case "stop":
		if rapid.IntRange(0, 2).Draw(t, "stopSum") == 0 {
			c.Summary = CmdEntrySummary(t, "stopSumV")
		}
	case "pause":
		c.Extend = rapid.IntRange(0, 3).Draw(t, "extend") == 0
		c.NoTags = rapid.IntRange(0, 3).Draw(t, "noTags") == 0
		if !c.Extend && rapid.Bool().Draw(t, "pauseSum") {
			c.Summary = CmdEntrySummary(t, "pauseSumV")
		}
		if c.Extend && rapid.IntRange(0, 9).Draw(t, "extendWithSummary") == 0 {
			c.Summary = CmdEntrySummary(t, "pauseSumX")
		}
		n := rapid.IntRange(0, 5).Draw(t, "nTicks")
		for i := 0; i < n; i++ {
			c.Ticks = append(c.Ticks, rapid.SampledFrom([]int{1, 30, 59, 60, 61, 125, 17 * 60, 3600, -90, -3600, 86400}).Draw(t, "tick"))
		}
	case "create":
		if rapid.IntRange(0, 2).Draw(t, "createShould") == 0 {
			dur := DurationLit(t, rapid.SampledFrom([]int{480, 0, -30, 450, 1}).Draw(t, "shouldMins"), "shouldLit")
			c.Should = &dur
		}
		if rapid.IntRange(0, 2).Draw(t, "createSum") == 0 {
			n := rapid.IntRange(1, 2).Draw(t, "createSumN")
			for i := 0; i < n; i++ {
				s := cmdText(t, "createSumL")
				c.Summary = append(c.Summary, model.Text(s))
			}
		}
	}
	return c
}

// Env draws a clock and configuration.
func Env(t *rapid.T, nearDay int) model.Env {
	e := model.Env{NowDay: nearDay}
	if nearDay == 0 {
		e.NowDay = rapid.IntRange(model.DaysFromCivil(1990, 1, 1), model.DaysFromCivil(2040, 1, 1)).Draw(t, "nowDay")
	}
	switch rapid.IntRange(0, 4).Draw(t, "nowClass") {
	case 0:
		e.NowSec = rapid.SampledFrom([]int{0, 59, 60, 86399, 86340, 86280, 43200, 1439 * 60, 1410 * 60, 30 * 60}).Draw(t, "nowSecSpecial")
	default:
		e.NowSec = rapid.IntRange(0, 86399).Draw(t, "nowSec")
	}
	return e
}

// EnsureOpenRange makes one record near the clock carry an open range that can be stopped now
// (so that stop/switch/pause have something to work on). It returns the index of that record.
func EnsureOpenRange(t *rapid.T, d *model.Doc, env model.Env) int {
	if len(d.Records) == 0 {
		return -1
	}
	ri := rapid.IntRange(0, len(d.Records)-1).Draw(t, "openRec")
	r := &d.Records[ri]
	delta := rapid.SampledFrom([]int{0, 0, 0, 1}).Draw(t, "openRecDelta")
	day := env.NowDay - delta
	// keep dates unique-ish: move other records off that day
	for i := range d.Records {
		if i != ri && d.Records[i].Date.Days() >= day && d.Records[i].Date.Days() <= env.NowDay {
			d.Records[i].Date = model.DateOfDays(clampDay(day-1-i), d.Records[i].Date.Slash)
		}
	}
	r.Date = model.DateOfDays(day, r.Date.Slash)
	if r.OpenIndex() < 0 {
		e := model.Entry{Kind: model.KOpen, QMarks: rapid.SampledFrom([]int{1, 1, 2, 5}).Draw(t, "openQ")}
		e.DashL, e.DashR = dash(t, "openDash")
		e.Summary = EntrySummary(t, Opts{}, "openSum")
		pos := rapid.IntRange(0, len(r.Entries)).Draw(t, "openPos")
		r.Entries = append(r.Entries[:pos], append([]model.Entry{e}, r.Entries[pos:]...)...)
	}
	oi := r.OpenIndex()
	hi := delta*1440 + env.NowMin()
	r.Entries[oi].Start = TimeLit(t, Off(t, -1440, hi, "openStartOff"), "openStartLit")
	return ri
}

// EdgeDates moves the records of a document to the first/last representable days.
func EdgeDates(t *rapid.T, d *model.Doc) {
	for i := range d.Records {
		day := rapid.SampledFrom([]int{model.MinDay, model.MinDay, model.MinDay + 1, model.MaxDay - 1, model.MaxDay, model.MaxDay}).Draw(t, "edgeDay")
		d.Records[i].Date = model.DateOfDays(day, d.Records[i].Date.Slash)
	}
}
