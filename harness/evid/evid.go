// Package evid collects what a check run actually covered and writes it as a shard file
// that the driver (bin/check) merges into /verif/evidence/<id>.json.
package evid

import (
	"encoding/json"
	"fmt"
	"hash/fnv"
	"os"
	"path/filepath"
	"sort"
	"strconv"
	"sync"
	"time"
)

const maxSampleBytes = 2048

type sample struct {
	hash uint64
	json json.RawMessage
}

// Rec accumulates counters for one shard of one property check.
type Rec struct {
	mu          sync.Mutex
	ID          string
	start       time.Time
	evaluations int64
	nt          map[uint64]struct{}
	ntCounted   int64 // non-trivial cases that are distinct by construction (exhaustive enumerations)
	labels      map[string]int64
	excluded    map[string]int64
	first       []sample
	reservoir   []sample
	exhaustive  bool
	notes       []string
}

func New(id string) *Rec {
	return &Rec{ID: id, start: time.Now(), nt: map[uint64]struct{}{}, labels: map[string]int64{}, excluded: map[string]int64{}}
}

func hashOf(b []byte) uint64 {
	h := fnv.New64a()
	h.Write(b)
	return h.Sum64()
}

func trunc(b []byte) json.RawMessage {
	if len(b) <= maxSampleBytes {
		return json.RawMessage(b)
	}
	s, _ := json.Marshal(string(b[:maxSampleBytes]) + "…(truncated)")
	return s
}

// Case records one evaluated case. c is marshalled to JSON for hashing and sampling.
func (r *Rec) Case(c any, nontrivial bool, labels ...string) {
	b, err := json.Marshal(c)
	if err != nil {
		b = []byte(strconv.Quote(fmt.Sprintf("%v", c)))
	}
	r.mu.Lock()
	defer r.mu.Unlock()
	r.evaluations++
	for _, l := range labels {
		r.labels[l]++
	}
	if !nontrivial {
		r.labels["trivial"]++
		return
	}
	h := hashOf(b)
	if _, seen := r.nt[h]; seen {
		return
	}
	r.nt[h] = struct{}{}
	if len(r.first) < 3 {
		r.first = append(r.first, sample{h, trunc(b)})
		return
	}
	// Deterministic reservoir: keep the 5 cases with the smallest hashes.
	r.reservoir = append(r.reservoir, sample{h, trunc(b)})
	sort.Slice(r.reservoir, func(i, j int) bool { return r.reservoir[i].hash < r.reservoir[j].hash })
	if len(r.reservoir) > 5 {
		r.reservoir = r.reservoir[:5]
	}
}

// Count records n evaluated cases of an enumeration (distinct by construction), nt of them
// non-trivial, without hashing each of them. A few samples should be added with Sample.
func (r *Rec) Count(n, nt int64, labels ...string) {
	r.mu.Lock()
	defer r.mu.Unlock()
	r.evaluations += n
	r.ntCounted += nt
	for _, l := range labels {
		r.labels[l] += n
	}
}

func (r *Rec) Sample(c any) {
	b, _ := json.Marshal(c)
	r.mu.Lock()
	defer r.mu.Unlock()
	if len(r.first) < 8 {
		r.first = append(r.first, sample{hashOf(b), trunc(b)})
	}
}

func (r *Rec) Label(l string, n int64) {
	r.mu.Lock()
	defer r.mu.Unlock()
	r.labels[l] += n
}

func (r *Rec) Exclude(class string) {
	r.mu.Lock()
	defer r.mu.Unlock()
	r.excluded[class]++
}

func (r *Rec) SetExhaustive(b bool) { r.exhaustive = b }
func (r *Rec) Note(s string)        { r.mu.Lock(); r.notes = append(r.notes, s); r.mu.Unlock() }

type Shard struct {
	ID          string            `json:"id"`
	Shard       int               `json:"shard"`
	Completed   bool              `json:"completed"`
	Failed      bool              `json:"failed"`
	Evaluations int64             `json:"evaluations"`
	NTHashes    []string          `json:"nt_hashes"`
	NTCounted   int64             `json:"nt_counted"`
	Labels      map[string]int64  `json:"labels"`
	Excluded    map[string]int64  `json:"excluded"`
	Samples     []json.RawMessage `json:"samples"`
	Exhaustive  bool              `json:"exhaustive"`
	Notes       []string          `json:"notes"`
	WallS       float64           `json:"wall_s"`
}

// OutDir is where shard and failure files go.
func OutDir() string {
	d := os.Getenv("VERIF_OUT")
	if d == "" {
		d = filepath.Join(os.TempDir(), "verif-out")
	}
	os.MkdirAll(d, 0o755)
	return d
}

func ShardIndex() int {
	i, _ := strconv.Atoi(os.Getenv("VERIF_SHARD"))
	return i
}

func ShardCount() int {
	i, _ := strconv.Atoi(os.Getenv("VERIF_SHARDS"))
	if i < 1 {
		return 1
	}
	return i
}

// Write stores the shard file; completed marks that the test function ran to its end.
func (r *Rec) Write(completed, failed bool) {
	r.mu.Lock()
	defer r.mu.Unlock()
	s := Shard{ID: r.ID, Shard: ShardIndex(), Completed: completed, Failed: failed, Evaluations: r.evaluations,
		NTCounted: r.ntCounted, Labels: r.labels, Excluded: r.excluded, Exhaustive: r.exhaustive, Notes: r.notes,
		WallS: time.Since(r.start).Seconds()}
	for h := range r.nt {
		s.NTHashes = append(s.NTHashes, strconv.FormatUint(h, 16))
	}
	sort.Strings(s.NTHashes)
	for _, x := range r.first {
		s.Samples = append(s.Samples, x.json)
	}
	for _, x := range r.reservoir {
		s.Samples = append(s.Samples, x.json)
	}
	b, _ := json.Marshal(s)
	p := filepath.Join(OutDir(), fmt.Sprintf("%s.shard%d.json", r.ID, ShardIndex()))
	os.WriteFile(p, b, 0o644)
}

// Failure is what a failing case is saved as; the Case field replays through TestReplay.
type Failure struct {
	Property string          `json:"property"`
	Error    string          `json:"error"`
	Case     json.RawMessage `json:"case"`
}

func WriteFailure(id string, c any, errText string) string {
	b, _ := json.Marshal(c)
	f := Failure{Property: id, Error: errText, Case: b}
	out, _ := json.MarshalIndent(f, "", " ")
	p := filepath.Join(OutDir(), fmt.Sprintf("%s.shard%d.fail.json", id, ShardIndex()))
	os.WriteFile(p, out, 0o644)
	return p
}
