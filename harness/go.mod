module verifharness

go 1.24

require (
	github.com/jotaen/klog v0.0.0
	pgregory.net/rapid v1.3.0
)

require (
	cloud.google.com/go v0.118.2 // indirect
	github.com/jotaen/genie v0.0.1 // indirect
	github.com/jotaen/safemath v0.0.1 // indirect
	github.com/kballard/go-shellquote v0.0.0-20180428030007-95032a82bc51 // indirect
)

replace github.com/jotaen/klog => /repo
