package props

import (
	"fmt"
	"os"
	"path/filepath"
	"strings"
	gotime "time"

	"github.com/jotaen/klog/klog"
	"github.com/jotaen/klog/klog/app"
	"github.com/jotaen/klog/klog/app/cli"
	"github.com/jotaen/klog/klog/app/cli/util"
	klogmain "github.com/jotaen/klog/klog/app/main"
	"github.com/jotaen/klog/klog/service"
	"verifharness/model"
)

// envTime converts the model clock to a time.Time.
func envTime(env model.Env) gotime.Time {
	y, m, d := model.CivilFromDays(env.NowDay)
	return gotime.Date(y, gotime.Month(m), d, env.NowSec/3600, env.NowSec%3600/60, env.NowSec%60, 0, gotime.UTC)
}

// envConfig renders the config.ini for an environment.
func envConfig(env model.Env, extra string) string {
	s := extra
	if env.DefaultRound != 0 {
		s += fmt.Sprintf("default_rounding = %dm\n", env.DefaultRound)
	}
	if env.DefaultShould != nil {
		s += fmt.Sprintf("default_should_total = %s!\n", model.CanonDuration(*env.DefaultShould, false, 0))
	}
	return s
}

type invocationError struct{ msg string }

func (e invocationError) Error() string { return e.msg }

func entrySummaryOf(lines []model.Text) (klog.EntrySummary, error) {
	if lines == nil {
		return nil, nil
	}
	s, err := klog.NewEntrySummary(model.Strs(lines)...)
	if err != nil {
		return nil, invocationError{"harness generated a summary the CLI would refuse: " + fmt.Sprintf("%q", lines)}
	}
	return s, nil
}

// RunCmd executes a mutating command on file, as the CLI does after decoding its flags.
func (h *harness) RunCmd(c model.Cmd, file string) (result, error) {
	at := util.AtDateArgs{}
	switch c.DateSel {
	case "explicit":
		d, err := klog.NewDateFromString(c.Date.Lit())
		if err != nil {
			return result{}, invocationError{"bad explicit date " + c.Date.Lit()}
		}
		at.Date = d
	case "today":
		at.Today = true
	case "yesterday":
		at.Yesterday = true
	case "tomorrow":
		at.Tomorrow = true
	}
	atTime := util.AtDateAndTimeArgs{AtDateArgs: at}
	if c.Time != nil {
		tm, err := klog.NewTimeFromString(c.Time.Lit)
		if err != nil {
			return result{}, invocationError{"bad explicit time " + c.Time.Lit}
		}
		atTime.Time = tm
	}
	if c.Round != 0 {
		r, err := service.NewRounding(c.Round)
		if err != nil {
			return result{}, invocationError{"bad rounding"}
		}
		atTime.Round = r
	}
	sum, err := entrySummaryOf(c.Summary)
	if err != nil && c.Kind != "create" {
		return result{}, err
	}
	sumArgs := util.SummaryArgs{SummaryText: sum, Resume: c.Resume, ResumeNth: c.ResumeNth}
	out := util.OutputFileArgs{File: app.FileOrBookmarkName(file)}
	warn := util.WarnArgs{NoWarn: h.noWarn} // warnings are printed after the file was written: part of the command
	noStyle := util.NoStyleArgs{NoStyle: true}
	switch c.Kind {
	case "track":
		e, err := klog.NewEntrySummary(c.EntryLines()...)
		if err != nil {
			return result{}, invocationError{"harness generated an entry text the CLI would refuse"}
		}
		return h.Run(&cli.Track{Entry: e, AtDateArgs: at, NoStyleArgs: noStyle, WarnArgs: warn, OutputFileArgs: out}), nil
	case "start":
		return h.Run(&cli.Start{SummaryArgs: sumArgs, AtDateAndTimeArgs: atTime, NoStyleArgs: noStyle, WarnArgs: warn, OutputFileArgs: out}), nil
	case "stop":
		return h.Run(&cli.Stop{Summary: sum, AtDateAndTimeArgs: atTime, NoStyleArgs: noStyle, WarnArgs: warn, OutputFileArgs: out}), nil
	case "switch":
		return h.Run(&cli.Switch{SummaryArgs: sumArgs, AtDateAndTimeArgs: atTime, NoStyleArgs: noStyle, WarnArgs: warn, OutputFileArgs: out}), nil
	case "pause":
		ticks := c.Ticks
		util.VerifRepeat.Interval = gotime.Microsecond
		util.VerifRepeat.OnTick = func(done int64) bool {
			if int(done) >= len(ticks) {
				return true
			}
			h.now = h.now.Add(gotime.Duration(ticks[done]) * gotime.Second)
			return false
		}
		defer func() { util.VerifRepeat.OnTick = nil }()
		return h.Run(&cli.Pause{Summary: sum, NoAppendTags: c.NoTags, Extend: c.Extend, NoStyleArgs: noStyle, WarnArgs: warn, OutputFileArgs: out}), nil
	case "create":
		cr := &cli.Create{AtDateArgs: at, NoStyleArgs: noStyle, WarnArgs: warn, OutputFileArgs: out}
		if c.Should != nil {
			cr.ShouldTotal = klog.NewShouldTotal(0, c.Should.Mins)
		}
		if c.Summary != nil {
			rs, err := klog.NewRecordSummary(model.Strs(c.Summary)...)
			if err != nil {
				return result{}, invocationError{"harness generated a record summary the CLI would refuse"}
			}
			cr.Summary = rs
		}
		return h.Run(cr), nil
	}
	return result{}, invocationError{"unknown command kind " + c.Kind}
}

// Argv is the command line (without the program name) that expresses c on file.
func Argv(c model.Cmd, file string) []string {
	a := []string{c.Kind}
	switch c.DateSel {
	case "explicit":
		a = append(a, "--date", c.Date.Lit())
	case "today", "yesterday", "tomorrow":
		a = append(a, "--"+c.DateSel)
	}
	if c.Time != nil {
		a = append(a, "--time="+c.Time.Lit) // `=`: a shifted time starts with `<`, never with `-`, but stay safe
	}
	if c.Round != 0 {
		a = append(a, "--round", fmt.Sprintf("%dm", c.Round))
	}
	if c.Summary != nil {
		a = append(a, "--summary="+strings.Join(model.Strs(c.Summary), "\n"))
	}
	if c.Resume {
		a = append(a, "--resume")
	}
	if c.ResumeNth != 0 {
		a = append(a, fmt.Sprintf("--resume-nth=%d", c.ResumeNth))
	}
	if c.Extend {
		a = append(a, "--extend")
	}
	if c.NoTags {
		a = append(a, "--no-tags")
	}
	if c.Should != nil {
		a = append(a, "--should="+c.Should.Lit+"!")
	}
	a = append(a, "--no-style")
	if c.Kind == "track" {
		a = append(a, "--", strings.Join(c.EntryLines(), "\n"), file)
	} else {
		a = append(a, file)
	}
	return a
}

// RunMain runs klog's real entry point (flag parsing, context construction, error to exit code
// mapping) with stdout captured through a scratch file. The clock is the real one. `pause` ends
// after the given number of ticks.
func (h *harness) RunMain(args []string, pauseTicks int) (code int, rerr error, stdout string) {
	if pauseTicks >= 0 {
		util.VerifRepeat.Interval = gotime.Microsecond
		util.VerifRepeat.OnTick = func(done int64) bool { return int(done) >= pauseTicks }
		defer func() { util.VerifRepeat.OnTick = nil }()
	}
	capture := h.Path("stdout.txt")
	cf, err := os.Create(capture)
	if err != nil {
		panic("harness: " + err.Error())
	}
	saved := os.Stdout
	os.Stdout = cf
	defer func() {
		os.Stdout = saved
		cf.Close()
		ob, _ := os.ReadFile(capture)
		os.Remove(capture)
		stdout = string(ob)
	}()
	code, rerr = klogmain.Run(app.NewFileOrPanic(filepath.Join(h.dir, "cfg")), app.Meta{}, h.cfg, args)
	return
}
