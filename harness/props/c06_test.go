package props

import (
	"fmt"
	"strings"
	"testing"
	gotime "time"

	"github.com/jotaen/klog/klog"
	"github.com/jotaen/klog/klog/app"
	"github.com/jotaen/klog/klog/app/cli"
	tf "github.com/jotaen/klog/klog/app/cli/terminalformat"
	"github.com/jotaen/klog/klog/app/cli/util"
	"github.com/jotaen/klog/klog/parser"
	kjson "github.com/jotaen/klog/klog/parser/json"
	"github.com/jotaen/klog/klog/parser/txt"
	"pgregory.net/rapid"
	"verifharness/evid"
	"verifharness/gen"
	"verifharness/model"
)

// C06 — no file content can crash klog: parsing and evaluation are total.

type caseC06 struct {
	Text model.Text
	// NoExclusions disables the exclusion predicates of the known findings; it is only set in
	// their witness files, so that a witness keeps reproducing the finding.
	NoExclusions bool `json:",omitempty"`
}

var c06Alphabet = []string{
	"2020-01-01", "2020/1/1", "9999-12-31", "0000-01-01", "(8h!)", "(", ")", "!", "\n", "\r\n", "\r", "    ", "   ", "  ", "\t", " ",
	"1h", "-30m", "99999999999999999999h", "153722867280912930h", "9223372036854775807m", "8:00", "24:00", "<", ">", "-", "?", "am",
	"#tag", "=\"", "\xff", "\xe6\x97", "\x00", "日", " ", " ", "0", ":", "23:59", "12:00am", "+", "m", "h", "x", " - ", "　", "�", "1",
}

// hasUnrepresentableDuration is the exclusion predicate of known finding F2: the text contains a
// digit run followed by `h` or `m` whose value does not fit into 63 bits of minutes. Without such
// a substring NewDurationFromString cannot overflow.
func hasUnrepresentableDuration(text string) bool {
	for i := 0; i < len(text); {
		if text[i] < '0' || text[i] > '9' {
			i++
			continue
		}
		j := i
		for j < len(text) && text[j] >= '0' && text[j] <= '9' {
			j++
		}
		if j < len(text) && (text[j] == 'h' || text[j] == 'm') {
			// hours followed by minutes count together
			end := j + 1
			if text[j] == 'h' {
				k := end
				for k < len(text) && text[k] >= '0' && text[k] <= '9' {
					k++
				}
				if k > end && k < len(text) && text[k] == 'm' {
					end = k + 1
				}
			}
			if _, ok, fits := model.ScanDuration(text[i:end]); ok && !fits {
				return true
			}
			if _, ok, fits := model.ScanDuration(text[i : j+1]); ok && !fits {
				return true
			}
		}
		i = j
	}
	return false
}

func absInt(x int) uint64 {
	if x < 0 {
		return uint64(-x)
	}
	return uint64(x)
}

func parseShape(name string, records []klog.Record, blocks []txt.Block, errs []txt.Error) error {
	if len(errs) == 0 {
		if len(records) != len(blocks) {
			return fmt.Errorf("%s: %d records but %d blocks", name, len(records), len(blocks))
		}
		for i := range records {
			if records[i] == nil || blocks[i] == nil {
				return fmt.Errorf("%s: record or block %d is nil", name, i)
			}
		}
		return nil
	}
	// "no records and at least one error": whether blocks accompany the errors is not stated
	if len(records) != 0 {
		return fmt.Errorf("%s: errors together with records", name)
	}
	return nil
}

// crashCheck runs everything the property names on one input. Panics are caught by safeCheck.
func crashCheck(text string, out *Outcome) error {
	return crashCheckX(text, out, false)
}

func crashCheckX(text string, out *Outcome, noExclusions bool) error {
	if !noExclusions && hasUnrepresentableDuration(text) {
		out.Label("excluded:F2-unrepresentable-duration-literal")
		return nil
	}
	records, blocks, errs := parser.NewSerialParser().Parse(text)
	if err := parseShape("serial", records, blocks, errs); err != nil {
		return err
	}
	pr, pb, pe := parser.NewParallelParser(3).Parse(text)
	if err := parseShape("parallel(3)", pr, pb, pe); err != nil {
		return err
	}
	// (that the two engines agree is C07's statement, not C06's)
	if len(errs) != 0 || len(pe) != 0 {
		out.Label("rejected")
		for _, list := range [][]txt.Error{errs, pe} { // the parallel list went through renumbering
			if len(list) == 0 {
				continue
			}
			for _, e := range list {
				_ = e.Error() + e.LineText() + e.Code() + e.Title() + e.Details() + e.Message() + e.Origin()
				_ = e.LineNumber() + e.Position() + e.Column() + e.Length()
			}
			for _, theme := range []tf.ColourTheme{tf.COLOUR_THEME_NO_COLOUR, tf.COLOUR_THEME_DARK, tf.COLOUR_THEME_LIGHT, tf.COLOUR_THEME_BASIC} {
				_ = util.PrettifyParsingError(app.NewParserErrors(list), tf.NewStyler(theme)).Error()
			}
			_ = kjson.ToJson(nil, list, false)
			_ = kjson.ToJson(nil, list, true)
		}
		return nil
	}
	out.Label("accepted")
	// Known finding F3: sums beyond 2^62 minutes overflow by design; such inputs are not evaluated.
	var sum uint64
	minDay, maxDay := 1<<40, -(1 << 40)
	huge := false
	for _, r := range records {
		sum += absInt(r.ShouldTotal().InMinutes())
		for _, e := range r.Entries() {
			m := absInt(e.Duration().InMinutes())
			sum += m
			if m > 10_000_000 {
				huge = true
			}
		}
		d := model.DaysFromCivil(r.Date().Year(), r.Date().Month(), r.Date().Day())
		if d < minDay {
			minDay = d
		}
		if d > maxDay {
			maxDay = d
		}
		if sum >= 1<<62 && !noExclusions {
			out.Label("excluded:F3-sum-beyond-2^62")
			return nil
		}
	}
	now := gotime.Date(2024, 5, 5, 10, 0, 0, 0, gotime.UTC)
	if len(records) > 0 {
		// put the clock on the first record's date so that `today` and --now do something
		d := records[0].Date()
		if d.Year() >= 1 && d.Year() <= 9998 { // a system clock at the edge of the calendar is not a file-content matter
			now = gotime.Date(d.Year(), gotime.Month(d.Month()), d.Day(), 23, 59, 0, 0, gotime.UTC)
		}
	}
	h := newInlineHarness(now, text, 1, tf.COLOUR_THEME_DARK)
	run := func(name string, cmd interface{ Run(app.Context) app.Error }) {
		res := h.Run(cmd)
		_ = res
	}
	run("print", &cli.Print{})
	run("print --with-totals", &cli.Print{WithTotals: true})
	run("total --diff", &cli.Total{DiffArgs: util.DiffArgs{Diff: true}})
	run("total --now", &cli.Total{NowArgs: util.NowArgs{Now: true}})
	run("json", &cli.Json{})
	run("json --pretty --now", &cli.Json{Pretty: true, NowArgs: util.NowArgs{Now: true}})
	run("tags", &cli.Tags{Values: true, Count: true})
	run("today", &cli.Today{DiffArgs: util.DiffArgs{Diff: true}, NowArgs: util.NowArgs{Now: true}})
	span := maxDay - minDay
	for _, agg := range []string{"day", "week", "month", "quarter", "year"} {
		run("report "+agg, &cli.Report{AggregateBy: agg, DiffArgs: util.DiffArgs{Diff: true}})
		if span <= 800 {
			run("report --fill "+agg, &cli.Report{AggregateBy: agg, Fill: true})
		}
		if !huge {
			run("report --chart "+agg, &cli.Report{AggregateBy: agg, Chart: true})
		}
	}
	if huge {
		out.Label("not-explored:chart-with-huge-total")
	}
	return nil
}

func c06NonTrivial(text string) bool {
	digits := 0
	for i := 0; i < len(text); i++ {
		c := text[i]
		if c >= 0x80 || (c < 0x20 && c != '\n' && c != '\t') {
			return true
		}
		if c >= '0' && c <= '9' {
			digits++
			if digits >= 10 {
				return true
			}
		} else {
			digits = 0
		}
	}
	return false
}

func checkC06(c caseC06) (Outcome, error) {
	var out Outcome
	text := string(c.Text)
	if len(text) <= 64*1024 {
		// "never hangs": a watchdog around the whole case
		done := make(chan error, 1)
		go func() {
			defer func() {
				if r := recover(); r != nil {
					done <- fmt.Errorf("PANIC: %v\n%s", r, stack())
				}
			}()
			done <- crashCheckX(text, &out, c.NoExclusions)
		}()
		select {
		case err := <-done:
			if err != nil {
				return out, fmt.Errorf("%v\ntext: %s", err, quoteShort(text))
			}
		case <-gotime.After(60 * gotime.Second):
			return out, fmt.Errorf("HANG: no result after 60 s\ntext: %s", quoteShort(text))
		}
	} else if err := crashCheckX(text, &out, c.NoExclusions); err != nil {
		return out, err
	}
	out.NonTrivial = c06NonTrivial(text) && len(out.Labels) > 0 && !strings.HasPrefix(out.Labels[0], "excluded")
	return out, nil
}

func checkC06Direct(c caseC06) (Outcome, error) {
	var out Outcome
	text := string(c.Text)
	if err := crashCheckX(text, &out, c.NoExclusions); err != nil {
		return out, fmt.Errorf("%v\ntext: %s", err, quoteShort(text))
	}
	out.NonTrivial = c06NonTrivial(text) && len(out.Labels) > 0 && !strings.HasPrefix(out.Labels[0], "excluded")
	return out, nil
}

func genC06(t *rapid.T, _ *evid.Rec) caseC06 {
	var text string
	switch rapid.IntRange(0, 9).Draw(t, "textClass") {
	case 0:
		text = gen.Soup(t, "soup")
	case 1:
		text = string(rapid.SliceOfN(rapid.Byte(), 0, 200).Draw(t, "bytes"))
	case 2: // very long line / many records
		unit := rapid.SampledFrom([]string{"x", "日", "\xff", "1h ", "#tag ", " ", "\t", "?", "-"}).Draw(t, "unit")
		n := rapid.IntRange(1000, 40000).Draw(t, "repeat")
		prefix := rapid.SampledFrom([]string{"2020-01-01\n    1h ", "2020-01-01\n", "", "2020-01-01 (", "2020-01-01\n    8:00 - "}).Draw(t, "prefix")
		text = prefix + strings.Repeat(unit, n)
	case 3:
		n := rapid.IntRange(500, 3000).Draw(t, "records")
		var sb strings.Builder
		for i := 0; i < n; i++ {
			d := model.DateOfDays(model.DaysFromCivil(2000, 1, 1)+i, false)
			sb.WriteString(d.Lit() + "\n\t1h\n\n")
		}
		text = gen.Mutate(t, sb.String(), "mutMany")
	default:
		o := gen.Opts{Controls: true, InvalidUTF8: true, BigDurations: true, NearDay: model.DaysFromCivil(2020, 1, 1), NearSpan: 500}
		if rapid.Bool().Draw(t, "anyDates") {
			// dates over the whole calendar, biased to its edges (0000, 9999, year ends, leap days)
			o.NearDay, o.NearSpan = 0, 0
		}
		d := gen.Doc(t, o)
		if rapid.IntRange(0, 5).Draw(t, "calendarEdge") == 0 {
			// records on the first and last representable days (shifted times then touch days
			// that do not exist for klog)
			for i := range d.Records {
				day := rapid.SampledFrom([]int{model.MinDay, model.MinDay + 1, model.MaxDay - 1, model.MaxDay, model.MaxDay}).Draw(t, "edgeDay")
				d.Records[i].Date = model.DateOfDays(day, d.Records[i].Date.Slash)
			}
		}
		text, _ = model.Render(d, gen.Layout(t, len(d.Records)))
		if rapid.IntRange(0, 3).Draw(t, "mutate") != 0 {
			text = gen.Mutate(t, text, "mut")
		}
		if rapid.IntRange(0, 7).Draw(t, "prefixLine") == 0 {
			text = gen.PrefixLine(t, text, "prefix")
		}
		if rapid.IntRange(0, 19).Draw(t, "huge") == 0 {
			pos := rapid.IntRange(0, len(text)).Draw(t, "hugePos")
			text = text[:pos] + rapid.SampledFrom(gen.HugeNumberTokens).Draw(t, "hugeTok") + text[pos:]
		}
	}
	return caseC06{Text: model.Text(text)}
}

// eachTokenString enumerates all strings of at most maxTokens tokens over the alphabet.
func eachTokenString(maxTokens int) func(shard, shards int, ev *evid.Rec, emit func(caseC06) bool) {
	return func(shard, shards int, ev *evid.Rec, emit func(caseC06) bool) {
		k := len(c06Alphabet)
		idx := 0
		for n := 0; n <= maxTokens; n++ {
			total := 1
			for i := 0; i < n; i++ {
				total *= k
			}
			for v := 0; v < total; v++ {
				idx++
				if idx%shards != shard {
					continue
				}
				var sb strings.Builder
				x := v
				for i := 0; i < n; i++ {
					sb.WriteString(c06Alphabet[x%k])
					x /= k
				}
				if !emit(caseC06{Text: model.Text(sb.String())}) {
					return
				}
			}
		}
		ev.SetExhaustive(true)
		ev.Note(fmt.Sprintf("exhaustive part: all strings of <= %d tokens over a %d-token alphabet", maxTokens, k))
	}
}

func TestC06(t *testing.T) {
	p := Prop[caseC06]{ID: "C06", Gen: genC06, Check: checkC06}
	if replay(t, p) {
		return
	}
	ev := evid.New("C06")
	failed := false
	defer func() { ev.Write(true, failed) }()
	maxTokens := 3
	if thorough() {
		maxTokens = 4
	}
	failed = RunEnumWith(t, ev, Enum[caseC06]{ID: "C06", Check: checkC06Direct, Each: eachTokenString(maxTokens), Journal: true})
	if failed {
		return
	}
	ev.SetExhaustive(false) // the rapid part below samples
	failed = RunWith(t, ev, p)
}
