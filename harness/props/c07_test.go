package props

import (
	"fmt"
	"strings"
	"sync"
	"sync/atomic"
	"testing"
	gotime "time"
	"unicode/utf8"

	"github.com/jotaen/klog/klog"
	"github.com/jotaen/klog/klog/app/cli/util"
	"github.com/jotaen/klog/klog/parser"
	"github.com/jotaen/klog/klog/parser/engine"
	"github.com/jotaen/klog/klog/parser/txt"
	"pgregory.net/rapid"
	"verifharness/evid"
	"verifharness/gen"
	"verifharness/model"
)

// C07 — the parallel parser is indistinguishable from the serial parser.

type caseC07 struct {
	Text    model.Text
	Workers []int // >0: that many workers; -k: len(text)+2-k workers (L+1, L, L-1 …)
	Perm    int   // seed for the sampled arrival orders
	AllN    bool  // additionally sweep every worker count from 1 to len(text)+2 (short texts)
}

func genC07(t *rapid.T, _ *evid.Rec) caseC07 {
	var text string
	switch rapid.IntRange(0, 30).Draw(t, "textClass") {
	case 0, 1, 2:
		text = gen.Soup(t, "soup")
	case 3:
		// hundreds of small records, most of them faulty, with stretches of valid ones: many
		// errors inside worker-finalised blocks of several chunks
		n := rapid.IntRange(150, 400).Draw(t, "manyN")
		validFrom := rapid.IntRange(0, n).Draw(t, "validFrom")
		validLen := rapid.IntRange(10, 120).Draw(t, "validLen")
		var sb strings.Builder
		for i := 0; i < n; i++ {
			d := model.DateOfDays(model.DaysFromCivil(2000, 1, 1)+i, false)
			if i >= validFrom && i < validFrom+validLen {
				sb.WriteString(d.Lit() + "\n\t1h\n\n")
			} else {
				sb.WriteString(d.Lit() + "\n\tfoo\n\n")
			}
		}
		text = sb.String()
		c := caseC07{Text: model.Text(text), Perm: rapid.IntRange(0, 1<<20).Draw(t, "perm")}
		c.Workers = []int{2, 3, 4, rapid.IntRange(5, 9).Draw(t, "manyWorkers")}
		return c
	default:
		d := gen.Doc(t, gen.Opts{AllowMany: true, Controls: true, InvalidUTF8: true, KeepTrailingCR: true})
		l := gen.Layout(t, len(d.Records))
		var lines []model.LineInfo
		text, lines = model.Render(d, l)
		cls := rapid.IntRange(0, 3).Draw(t, "invalidClass")
		if cls == 1 {
			fl, _, applied := applyFaults(d, l, lines, genFaults(t, 3))
			if len(applied) > 0 {
				text = model.TextOf(fl)
			}
		} else if cls == 2 {
			text = gen.Mutate(t, text, "mut")
		}
		if rapid.IntRange(0, 5).Draw(t, "prefixLine") == 0 {
			text = gen.PrefixLine(t, text, "prefix")
		}
	}
	c := caseC07{Text: model.Text(text), Perm: rapid.IntRange(0, 1<<20).Draw(t, "perm")}
	c.Workers = []int{2, 3}
	for i, n := 0, rapid.IntRange(2, 6).Draw(t, "nWorkerCounts"); i < n; i++ {
		if rapid.IntRange(0, 3).Draw(t, "relN") == 0 {
			c.Workers = append(c.Workers, -rapid.IntRange(1, 4).Draw(t, "relWorkers"))
		} else {
			c.Workers = append(c.Workers, rapid.IntRange(1, 40).Draw(t, "workers"))
		}
	}
	c.AllN = thorough() && len(text) <= 200
	return c
}

func dumpRecords(rs []klog.Record) string {
	var sb strings.Builder
	for _, r := range rs {
		if r == nil {
			sb.WriteString("<nil>\n")
			continue
		}
		fmt.Fprintf(&sb, "%s|%v|%d|%q\n", r.Date().ToString(), r.Date().Format(), r.ShouldTotal().InMinutes(), r.Summary().Lines())
		for _, e := range r.Entries() {
			v := klog.Unbox[string](&e,
				func(x klog.Range) string {
					return fmt.Sprintf("R %s %v %v %v", x.ToString(), x.Format(), x.Start().Format(), x.End().Format())
				},
				func(x klog.Duration) string { return "D " + x.ToString() },
				func(x klog.OpenRange) string {
					return fmt.Sprintf("O %s %v %v", x.ToString(), x.Format(), x.Start().Format())
				})
			fmt.Fprintf(&sb, "  %s|%d|%q\n", v, e.Duration().InMinutes(), e.Summary().Lines())
		}
	}
	return sb.String()
}

func dumpBlocks(bs []txt.Block) string {
	var sb strings.Builder
	for _, b := range bs {
		fmt.Fprintf(&sb, "@%d", b.OverallLineIndex(0))
		for _, l := range b.Lines() {
			fmt.Fprintf(&sb, " %q+%q", l.Text, l.LineEnding)
		}
		sb.WriteString("\n")
	}
	return sb.String()
}

func dumpParse(rs []klog.Record, bs []txt.Block, errs []txt.Error) string {
	// lengths, not nil-ness: an empty result is the same result whether the slice is nil or empty
	return fmt.Sprintf("records(%d):\n%sblocks(%d):\n%serrors(%d): %v", len(rs), dumpRecords(rs), len(bs), dumpBlocks(bs), len(errs), tuples(errs))
}

// schedule forces the arrival order of the batch results through the verif hook: batch perm[0]
// delivers first, then perm[1], and so on. The batch indices that actually occur are learnt from a
// first, unforced parse of the same text with the same worker count (an implementation may run fewer
// batches than workers, e.g. for short texts); the forced order is over those. As a backstop the
// gates are best effort: a turn whose batch has not shown up within a grace period while others are
// waiting is given away, and unknown indices pass freely, so that the harness can never wedge. The
// oracle (parallel == serial) does not depend on the order that is finally realised.
//
// The hook functions are installed once and read the active schedule through an atomic pointer, so
// that a hook call which an implementation makes after Parse has returned does not race with the
// harness (the race detector watches this test in the thorough tier).
type schedule struct {
	mu      sync.Mutex
	learn   bool         // only record which indices occur
	seen    map[int]bool // learn mode: the indices
	perm    []int
	pos     map[int]int // batch index -> rank in perm
	turn    int
	changed chan struct{}
}

const scheduleGrace = 30 * gotime.Millisecond

var scheduleSkips int64 // number of turns given away (statistics)
var activeSchedule atomic.Pointer[schedule]
var hookOnce sync.Once

func ensureHooks() {
	hookOnce.Do(func() {
		engine.VerifSchedule.Before = func(i int) {
			if s := activeSchedule.Load(); s != nil {
				s.before(i)
			}
		}
		engine.VerifSchedule.After = func(i int) {
			if s := activeSchedule.Load(); s != nil {
				s.after(i)
			}
		}
	})
}

func (s *schedule) bump() { // with s.mu held
	close(s.changed)
	s.changed = make(chan struct{})
}

func (s *schedule) before(i int) {
	s.mu.Lock()
	if s.learn {
		s.seen[i] = true
		s.mu.Unlock()
		return
	}
	for {
		rank, known := s.pos[i]
		if !known || rank <= s.turn || s.turn >= len(s.perm) {
			s.mu.Unlock()
			return
		}
		ch, seenTurn := s.changed, s.turn
		s.mu.Unlock()
		select {
		case <-ch:
		case <-gotime.After(scheduleGrace):
		}
		s.mu.Lock()
		if s.turn == seenTurn && ch == s.changed {
			// nothing happened for the whole grace period: the awaited batch is not coming (or
			// is very slow); give its turn away
			s.turn++
			atomic.AddInt64(&scheduleSkips, 1)
			s.bump()
		}
	}
}

func (s *schedule) after(i int) {
	s.mu.Lock()
	if !s.learn {
		if rank, known := s.pos[i]; known && rank == s.turn {
			s.turn++
			s.bump()
		}
	}
	s.mu.Unlock()
}

// learnBatches runs one unforced parse and returns the batch indices for which the hook fired.
func learnBatches(n int, text string) map[int]bool {
	ensureHooks()
	s := &schedule{learn: true, seen: map[int]bool{}, changed: make(chan struct{})}
	activeSchedule.Store(s)
	parser.NewParallelParser(n).Parse(text)
	activeSchedule.Store(nil)
	s.mu.Lock()
	defer s.mu.Unlock()
	out := map[int]bool{}
	for k := range s.seen {
		out[k] = true
	}
	return out
}

// installSchedule forces the order perm, restricted to the batch indices in occurring (nil = all).
func installSchedule(perm []int, occurring map[int]bool) {
	ensureHooks()
	s := &schedule{pos: map[int]int{}, changed: make(chan struct{})}
	for _, i := range perm {
		if occurring == nil || occurring[i] {
			s.pos[i] = len(s.perm)
			s.perm = append(s.perm, i)
		}
	}
	activeSchedule.Store(s)
}

func clearSchedule() { activeSchedule.Store(nil) }

func permutations(n int) [][]int {
	if n == 1 {
		return [][]int{{0}}
	}
	var out [][]int
	for _, p := range permutations(n - 1) {
		for pos := 0; pos <= len(p); pos++ {
			q := append(append(append([]int{}, p[:pos]...), n-1), p[pos:]...)
			out = append(out, q)
		}
	}
	return out
}

func shuffled(n int, seed uint64) []int {
	p := make([]int, n)
	for i := range p {
		p[i] = i
	}
	x := seed*6364136223846793005 + 1442695040888963407
	for i := n - 1; i > 0; i-- {
		x = x*6364136223846793005 + 1442695040888963407
		j := int((x >> 33) % uint64(i+1))
		p[i], p[j] = p[j], p[i]
	}
	return p
}

func ordersFor(n int, seed int, extra int) [][]int {
	if n <= 4 {
		return permutations(n)
	}
	id := make([]int, n)
	rev := make([]int, n)
	for i := range id {
		id[i] = i
		rev[i] = n - 1 - i
	}
	out := [][]int{id, rev}
	for k := 0; k < extra; k++ {
		out = append(out, shuffled(n, uint64(seed*31+k*7+n)))
	}
	return out
}

func checkC07(c caseC07) (Outcome, error) {
	var out Outcome
	text := string(c.Text)
	L := len(text)
	if hasUnrepresentableDuration(text) {
		// known finding F2 (C06): such a literal makes the parser itself panic, serial or parallel;
		// token mutations can glue digits together into one
		out.Label("excluded:F2-unrepresentable-duration-literal")
		return out, nil
	}
	sr, sb, se := parser.NewSerialParser().Parse(text)
	want := dumpParse(sr, sb, se)
	var counts []int
	seen := map[int]bool{}
	add := func(n int) {
		if n >= 1 && !seen[n] {
			seen[n] = true
			counts = append(counts, n)
		}
	}
	for _, w := range c.Workers {
		if w > 0 {
			add(w)
		} else if L <= 400 {
			add(L + 2 + w + 1) // -1 -> L+2, -2 -> L+1, -3 -> L, -4 -> L-1
		}
	}
	if c.AllN {
		for n := 1; n <= L+2; n++ {
			add(n)
		}
	}
	for _, n := range aimedWorkerCounts(text, 8) {
		add(n)
	}
	defer clearSchedule()
	nontrivial := false
	for _, n := range counts {
		extra := 1
		if thorough() {
			extra = 4
		}
		orders := ordersFor(n, c.Perm, extra)
		if c.AllN && n > 4 && len(counts) > 40 {
			orders = orders[:2+0] // identity and reverse in the full sweep
			orders = append(orders, shuffled(n, uint64(c.Perm+n)))
		}
		occurring := learnBatches(n, text)
		if len(occurring) != n {
			out.Label("fewer-batches-than-workers")
		}
		for _, perm := range orders {
			skipsBefore := atomic.LoadInt64(&scheduleSkips)
			installSchedule(perm, occurring)
			pr, pb, pe := parser.NewParallelParser(n).Parse(text)
			clearSchedule()
			if atomic.LoadInt64(&scheduleSkips) != skipsBefore {
				out.Label("arrival-order-not-fully-realised")
			} else {
				out.Label("arrival-order-realised")
			}
			got := dumpParse(pr, pb, pe)
			if got != want {
				return out, fmt.Errorf("parallel(%d workers, arrival order %v) differs from serial\ntext: %s\n--- serial\n%s\n--- parallel\n%s", n, perm, quoteShort(text), trim(want), trim(got))
			}
		}
		// boundary classification
		if n >= 2 && countBlocks(text) >= 2 {
			size := (L + n - 1) / n
			for k := 1; k < n && size > 0; k++ {
				b := k * size
				if b <= 0 || b >= L {
					continue
				}
				cls, inside := classifyBoundary(text, b)
				out.Label(cls)
				if inside {
					nontrivial = true
				}
			}
		}
	}
	// Command level: the same commands under a context with n CPUs and with 1 CPU.
	if len(counts) > 0 && !sumOverflows(sr) {
		n := counts[len(counts)-1]
		var ref [3]string
		for i, cpus := range []int{1, n} {
			h := newHarnessEnv(goTime(model.DaysFromCivil(2024, 5, 5), 600), "", nil, cpus)
			f := h.WriteFile("in.klg", text)
			r1 := h.RunPrint([]string{f}, false, true, util.FilterArgs{}, "")
			r2 := h.RunTotal([]string{f}, true, false, false)
			r3 := h.RunJson([]string{f}, false, false, util.FilterArgs{}, "")
			h.Close()
			obs := [3]string{fmt.Sprintf("%d|%s", r1.Code(), r1.Out), fmt.Sprintf("%d|%s", r2.Code(), r2.Out), fmt.Sprintf("%d|%s", r3.Code(), strings.ReplaceAll(r3.Out, f, "FILE"))}
			if i == 0 {
				ref = obs
			} else if obs != ref {
				return out, fmt.Errorf("commands behave differently with %d CPUs than with 1\ntext: %s\n1:  %s\n%d: %s", n, quoteShort(text), quoteShort(fmt.Sprint(ref)), n, quoteShort(fmt.Sprint(obs)))
			}
		}
	}
	if se != nil {
		out.Label("invalid-text")
	} else {
		out.Label("valid-text")
	}
	if !utf8.ValidString(text) {
		out.Label("invalid-utf8")
	}
	out.NonTrivial = nontrivial
	return out, nil
}

// countBlocks counts the runs of non-blank lines with the harness's own splitter.
func countBlocks(text string) int {
	n, in := 0, false
	for _, l := range model.SplitLines(text) {
		blank := model.IsBlankST(l.Text)
		if !blank && !in {
			n++
		}
		in = !blank
	}
	return n
}

func trim(s string) string {
	if len(s) > 1500 {
		return s[:1500] + "…"
	}
	return s
}

// classifyBoundary names the kind of position a chunk boundary falls on; inside reports whether
// it lies strictly inside a block (not on a blank line).
func classifyBoundary(text string, b int) (string, bool) {
	if text[b-1] == '\r' && text[b] == '\n' {
		return "boundary-inside-crlf", true
	}
	if !utf8.RuneStart(text[b]) {
		return "boundary-inside-codepoint", true
	}
	// the line that contains position b
	start := strings.LastIndexByte(text[:b], '\n') + 1
	end := strings.IndexByte(text[b:], '\n')
	if end < 0 {
		end = len(text)
	} else {
		end += b
	}
	line := strings.TrimSuffix(text[start:end], "\r")
	if model.IsBlankST(line) {
		return "boundary-on-blank-line", false
	}
	if b == start {
		return "boundary-at-line-start", true
	}
	return "boundary-inside-line", true
}

func TestC07(t *testing.T) {
	Run(t, Prop[caseC07]{ID: "C07", Gen: genC07, Check: checkC07})
}

// sumOverflows is the exclusion predicate of known finding F3: the durations of the records sum
// to 2^62 minutes or more, so that evaluating them panics by design.
func sumOverflows(records []klog.Record) bool {
	var sum uint64
	for _, r := range records {
		sum += absInt(r.ShouldTotal().InMinutes())
		for _, e := range r.Entries() {
			sum += absInt(e.Duration().InMinutes())
		}
		if sum >= 1<<62 {
			return true
		}
	}
	return false
}

// aimedWorkerCounts returns worker counts for which a chunk boundary falls on a position that is
// interesting for the merge logic: directly after the line break of a blank line inside a run of
// blank lines, between CR and LF, or inside a multi-byte character. For a position p and a chunk
// size s dividing p, n = ceil(L/s) workers cut the text at p provided ceil(L/n) == s.
func aimedWorkerCounts(text string, max int) []int {
	L := len(text)
	var positions []int
	prevBlank := false
	lineStart := 0
	for i := 0; i < L; i++ {
		if text[i] == '\n' {
			line := strings.TrimSuffix(text[lineStart:i], "\r")
			blank := model.IsBlankST(line)
			if blank && (prevBlank || lineStart == 0) {
				positions = append(positions, lineStart) // boundary between two blank lines
			}
			if blank {
				positions = append(positions, i+1)
			}
			if i > 0 && text[i-1] == '\r' {
				positions = append(positions, i) // between CR and LF
			}
			prevBlank = blank
			lineStart = i + 1
		} else if text[i] >= 0x80 && !utf8.RuneStart(text[i]) {
			positions = append(positions, i) // inside a code point
		}
	}
	var out []int
	seen := map[int]bool{}
	for k, p := range positions {
		if len(out) >= max {
			break
		}
		if p <= 0 || p >= L {
			continue
		}
		// try a few divisors of p, preferring large chunks (few workers)
		tried := 0
		for s := p; s >= 1 && tried < 3; s-- {
			if p%s != 0 {
				continue
			}
			n := (L + s - 1) / s
			if n < 2 || n > 64 || (L+n-1)/n != s {
				continue
			}
			tried++
			if !seen[n] && (k+s)%2 == 0 || tried == 1 && !seen[n] {
				seen[n] = true
				out = append(out, n)
				break
			}
		}
	}
	return out
}
