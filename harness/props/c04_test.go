package props

import (
	"fmt"
	"strings"
	"testing"

	"github.com/jotaen/klog/klog"
	"github.com/jotaen/klog/klog/parser"
	"pgregory.net/rapid"
	"verifharness/evid"
	"verifharness/gen"
	"verifharness/model"
)

// C04 — mutating commands have exactly their intended effect over any command history.

type stepC04 struct {
	Advance int // seconds the clock advances before the command
	Cmd     model.Cmd
}

type caseC04 struct {
	Doc    model.Doc
	Layout model.Layout
	Env    model.Env
	Steps  []stepC04
}

func advanceEnv(env model.Env, sec int) model.Env {
	total := env.NowDay*86400 + env.NowSec + sec
	env.NowDay = total / 86400
	env.NowSec = total % 86400
	return env
}

func genC04(t *rapid.T, _ *evid.Rec) caseC04 {
	c := caseC04{}
	c.Env = gen.Env(t, 0)
	if rapid.IntRange(0, 3).Draw(t, "cfgRound") == 0 {
		c.Env.DefaultRound = rapid.SampledFrom([]int{5, 15, 30, 60}).Draw(t, "defaultRound")
	}
	if rapid.IntRange(0, 3).Draw(t, "cfgShould") == 0 {
		v := rapid.SampledFrom([]int{480, 450, 60}).Draw(t, "defaultShould")
		c.Env.DefaultShould = &v
	}
	o := gen.Opts{MaxRecords: 4, NearDay: c.Env.NowDay, NearSpan: 3, MaxEntries: 3, TabSeparators: true}
	c.Doc = gen.Doc(t, o)
	if rapid.IntRange(0, 11).Draw(t, "edgeDates") == 0 {
		gen.EdgeDates(t, &c.Doc)
	}
	c.Layout = gen.Layout(t, len(c.Doc.Records))
	// The generator follows the model's prediction so that later commands fit the evolving file.
	state := c.Doc
	env := c.Env
	n := rapid.IntRange(1, 10).Draw(t, "nSteps")
	for i := 0; i < n; i++ {
		adv := rapid.SampledFrom([]int{0, 1, 60, 600, 3600, 7200, 86400, 30000}).Draw(t, "advance")
		env = advanceEnv(env, adv)
		cmd := gen.Cmd(t, state, env, gen.CmdOpts{})
		c.Steps = append(c.Steps, stepC04{Advance: adv, Cmd: cmd})
		if res, rej, _ := model.Apply(state, cmd, env); !rej && len(res) > 0 {
			state = res[0]
		}
		if cmd.Kind == "pause" {
			for _, s := range cmd.Ticks {
				env = advanceEnv(env, s)
			}
		}
	}
	return c
}

func trimTrail(s string) string { return strings.TrimRight(s, " \t") }

// looseCompare compares denotations only (no notation facts): dates, should-totals, summaries,
// entry kinds and values, order.
func looseCompare(want model.Doc, got []klog.Record) error {
	if len(got) != len(want.Records) {
		return fmt.Errorf("%d records, want %d", len(got), len(want.Records))
	}
	for i, w := range want.Records {
		g := got[i]
		if g.Date().Year() != w.Date.Y || g.Date().Month() != w.Date.M || g.Date().Day() != w.Date.D {
			return fmt.Errorf("record %d: date %s, want %s", i, g.Date().ToString(), w.Date.Lit())
		}
		if g.ShouldTotal().InMinutes() != w.ShouldMins() {
			return fmt.Errorf("record %d (%s): should-total %d, want %d", i, w.Date.Lit(), g.ShouldTotal().InMinutes(), w.ShouldMins())
		}
		if fmt.Sprintf("%q", g.Summary().Lines()) != fmt.Sprintf("%q", model.Strs(w.Summary)) {
			return fmt.Errorf("record %d (%s): summary %q, want %q", i, w.Date.Lit(), g.Summary().Lines(), w.Summary)
		}
		ge := g.Entries()
		if len(ge) != len(w.Entries) {
			return fmt.Errorf("record %d (%s): %d entries, want %d", i, w.Date.Lit(), len(ge), len(w.Entries))
		}
		for j, we := range w.Entries {
			kind, a, b := entryValue(&ge[j])
			wa, wb := we.Dur.Mins, 0
			if we.Kind != model.KDuration {
				wa, wb = we.Start.Off, we.End.Off
				if we.Kind == model.KOpen {
					wb = 0
				}
			}
			if kind != we.Kind || a != wa || b != wb {
				return fmt.Errorf("record %d (%s) entry %d: %s(%d,%d), want %s(%d,%d)", i, w.Date.Lit(), j, kind, a, b, we.Kind, wa, wb)
			}
			gs := ge[j].Summary().Lines()
			if len(gs) == 0 {
				gs = []string{""}
			}
			ws := model.Strs(we.Summary)
			if len(ws) == 0 {
				ws = []string{""}
			}
			if we.CarryTags != nil && model.PauseSummaryAcceptable(gs, we.CarryBase, we.CarryTags) {
				continue // the open range's tags are carried over (possibly without repeating those the user wrote)
			}
			if len(gs) != len(ws) {
				return fmt.Errorf("record %d (%s) entry %d: summary %q, want %q", i, w.Date.Lit(), j, gs, ws)
			}
			for k := range gs {
				x, y := gs[k], ws[k]
				if we.LooseTrail {
					x, y = trimTrail(x), trimTrail(y)
				}
				if x != y {
					return fmt.Errorf("record %d (%s) entry %d: summary %q, want %q", i, w.Date.Lit(), j, gs, ws)
				}
			}
		}
	}
	return nil
}

func entryValue(e *klog.Entry) (string, int, int) {
	kind, a, b := "", 0, 0
	klog.Unbox[any](e, func(r klog.Range) any {
		kind, a, b = model.KRange, r.Start().MidnightOffset().InMinutes(), r.End().MidnightOffset().InMinutes()
		return nil
	}, func(d klog.Duration) any {
		kind, a = model.KDuration, d.InMinutes()
		return nil
	}, func(o klog.OpenRange) any {
		kind, a = model.KOpen, o.Start().MidnightOffset().InMinutes()
		return nil
	})
	return kind, a, b
}

// docFromKlog rebuilds a model document (denotations only) from parsed records.
func docFromKlog(rs []klog.Record) model.Doc {
	d := model.Doc{}
	for _, r := range rs {
		mr := model.Record{Date: model.Date{Y: r.Date().Year(), M: r.Date().Month(), D: r.Date().Day(), Slash: !r.Date().Format().UseDashes}}
		if m := r.ShouldTotal().InMinutes(); m != 0 {
			mr.Should = &model.Duration{Mins: m}
		}
		for _, l := range r.Summary().Lines() {
			mr.Summary = append(mr.Summary, model.Text(l))
		}
		for _, e := range r.Entries() {
			kind, a, b := entryValue(&e)
			me := model.Entry{Kind: kind, QMarks: 1}
			switch kind {
			case model.KDuration:
				me.Dur = model.Duration{Mins: a}
			case model.KRange:
				me.Start, me.End = model.Time{Off: a}, model.Time{Off: b}
			default:
				me.Start = model.Time{Off: a}
			}
			ls := e.Summary().Lines()
			if len(ls) == 0 {
				ls = []string{""}
			}
			me.Summary = model.Texts(ls...)
			mr.Entries = append(mr.Entries, me)
		}
		d.Records = append(d.Records, mr)
	}
	return d
}

func cmdString(c model.Cmd) string {
	s := c.Kind
	if c.DateSel != "" {
		s += " --" + c.DateSel
		if c.DateSel == "explicit" {
			s += "=" + c.Date.Lit()
		}
	}
	if c.Time != nil {
		s += " --time " + c.Time.Lit
	}
	if c.Round != 0 {
		s += fmt.Sprintf(" --round %dm", c.Round)
	}
	if c.Summary != nil {
		s += fmt.Sprintf(" --summary %q", model.Strs(c.Summary))
	}
	if c.Resume {
		s += " --resume"
	}
	if c.ResumeNth != 0 {
		s += fmt.Sprintf(" --resume-nth %d", c.ResumeNth)
	}
	if c.Entry != nil || c.Raw != nil {
		s += fmt.Sprintf(" %q", c.EntryLines())
	}
	if c.Extend {
		s += " --extend"
	}
	if c.NoTags {
		s += " --no-tags"
	}
	if c.Kind == "pause" {
		s += fmt.Sprintf(" ticks=%v", c.Ticks)
	}
	if c.Should != nil {
		s += " --should " + c.Should.Lit
	}
	return s
}

func envString(e model.Env) string {
	return fmt.Sprintf("%s %02d:%02d:%02d round=%d", model.DateOfDays(e.NowDay, false).Lit(), e.NowSec/3600, e.NowSec%3600/60, e.NowSec%60, e.DefaultRound)
}

func checkC04(c caseC04) (Outcome, error) {
	var out Outcome
	text, _ := model.Render(c.Doc, c.Layout)
	env := c.Env
	h := newHarness(envTime(env), envConfig(env, ""))
	defer h.Close()
	file := h.WriteFile("f.klg", text)
	state := c.Doc
	history := ""
	succeeded, rewrote, rejected := 0, 0, 0
	for si, st := range c.Steps {
		env = advanceEnv(env, st.Advance)
		h.now = envTime(env)
		before, _ := h.ReadFile("f.klg")
		res, ierr := h.RunCmd(st.Cmd, file)
		if ierr != nil {
			return out, fmt.Errorf("harness: %v", ierr)
		}
		after, _ := h.ReadFile("f.klg")
		results, reject, mayReject := model.Apply(state, st.Cmd, env)
		history += fmt.Sprintf("\n  [%d] at %s: klog %s", si, envString(env), cmdString(st.Cmd))
		ctxInfo := func() string {
			return fmt.Sprintf("history:%s\nfile before: %s\nfile after:  %s", history, quoteShort(before), quoteShort(after))
		}
		if model.Unspecified && res.Err == nil {
			// the properties leave open what this command does when it does not fail: nothing is
			// asserted for the step, the history continues from what klog wrote (if it parses)
			history += " -> ok (outcome not specified)"
			out.Label("unspecified:" + st.Cmd.Kind)
			records, _, errs := parser.NewSerialParser().Parse(after)
			if errs != nil {
				return out, fmt.Errorf("step %d: the file does not parse after a successful command (line %d: %s)\n%s", si, errs[0].LineNumber(), errs[0].Code(), ctxInfo())
			}
			state = docFromKlog(records)
		} else if res.Err != nil {
			history += fmt.Sprintf(" -> failed (%s: %s)", res.Err.Error(), res.Err.Details())
			if after != before {
				return out, fmt.Errorf("step %d: the command failed but changed the file\n%s", si, ctxInfo())
			}
			if !reject && !mayReject {
				return out, fmt.Errorf("step %d: the model accepts this command, but klog failed\n%s", si, ctxInfo())
			}
			if reject {
				rejected++
				out.Label("rejected:" + st.Cmd.Kind)
			} else {
				out.Label("failed-ambiguous:" + st.Cmd.Kind)
			}
		} else {
			history += " -> ok"
			if reject {
				return out, fmt.Errorf("step %d: the model rejects this command, but klog succeeded\n%s", si, ctxInfo())
			}
			records, _, errs := parser.NewSerialParser().Parse(after)
			if errs != nil {
				return out, fmt.Errorf("step %d: the file does not parse after a successful command (line %d: %s)\n%s", si, errs[0].LineNumber(), errs[0].Code(), ctxInfo())
			}
			matched := false
			var firstErr error
			for _, cand := range results {
				if err := looseCompare(cand, records); err == nil {
					matched = true
					break
				} else if firstErr == nil {
					firstErr = err
				}
			}
			if !matched {
				return out, fmt.Errorf("step %d: the file does not denote what the model predicts (%d acceptable outcome(s)); first difference: %v\n%s", si, len(results), firstErr, ctxInfo())
			}
			state = docFromKlog(records)
			succeeded++
			out.Label("ok:" + st.Cmd.Kind)
			if st.Cmd.Kind == "pause" && len(st.Cmd.Ticks) > 0 {
				out.Label("ok:pause-with-ticks")
			}
			if st.Cmd.Kind == "stop" || st.Cmd.Kind == "switch" || st.Cmd.Kind == "pause" {
				rewrote++
			}
		}
		if st.Cmd.Kind == "pause" {
			// the tick script advanced the clock
			n := h.now
			env.NowDay = model.DaysFromCivil(n.Year(), int(n.Month()), n.Day())
			env.NowSec = n.Hour()*3600 + n.Minute()*60 + n.Second()
		}
	}
	out.NonTrivial = succeeded >= 3 && rewrote >= 1 && rejected >= 1
	if succeeded >= 3 {
		out.Label("history>=3-successes")
	}
	return out, nil
}

func TestC04(t *testing.T) {
	Run(t, Prop[caseC04]{ID: "C04", Gen: genC04, Check: checkC04})
}
