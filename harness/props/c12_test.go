package props

import (
	"fmt"
	"sort"
	"strconv"
	"strings"
	"testing"

	"github.com/jotaen/klog/klog"
	"github.com/jotaen/klog/klog/app/cli"
	"github.com/jotaen/klog/klog/app/cli/util"
	"pgregory.net/rapid"
	"verifharness/evid"
	"verifharness/gen"
	"verifharness/model"
)

// C12 — all evaluation views partition the same total.

type caseC12 struct {
	Doc     model.Doc
	Layout  model.Layout
	Env     model.Env
	Agg     string // day, week, month, quarter, year
	Fill    bool
	Diff    bool
	Now     bool
	Since   *model.Date
	Until   *model.Date
	Decimal bool // for today / total; the report is always read in decimal notation
}

var monthNames = []string{"Jan", "Feb", "Mar", "Apr", "May", "Jun", "Jul", "Aug", "Sep", "Oct", "Nov", "Dec"}
var dayNames = []string{"Mon", "Tue", "Wed", "Thu", "Fri", "Sat", "Sun"}

func genC12(t *rapid.T, _ *evid.Rec) caseC12 {
	c := caseC12{}
	// cluster the dates so that rows are shared, around interesting boundaries
	base := 0
	switch rapid.IntRange(0, 4).Draw(t, "baseClass") {
	case 0:
		y := rapid.SampledFrom([]int{2015, 2018, 2020, 2021, 2024, 2026, 1999, 2000}).Draw(t, "baseYear")
		base = model.DaysFromCivil(y, 1, 1) + rapid.IntRange(-5, 5).Draw(t, "baseOff")
	case 1:
		y := rapid.IntRange(1990, 2040).Draw(t, "baseYear2")
		m := rapid.SampledFrom([]int{3, 6, 9, 12, 2}).Draw(t, "baseMonth")
		base = model.DaysFromCivil(y, m, model.DaysInMonth(y, m)) + rapid.IntRange(-3, 3).Draw(t, "baseOff2")
	default:
		base = gen.Day(t, "base")
	}
	span := rapid.SampledFrom([]int{3, 10, 40, 200, 390}).Draw(t, "span")
	c.Env = model.Env{NowDay: base, NowSec: rapid.IntRange(0, 86399).Draw(t, "nowSec")}
	if c.Env.NowDay < model.MinDay+2 || c.Env.NowDay > model.MaxDay-2 {
		c.Env.NowDay = model.DaysFromCivil(2020, 6, 1)
	}
	c.Doc = gen.Doc(t, gen.Opts{MaxRecords: 8, AllowMany: true, NearDay: base, NearSpan: span, PlainSummary: true, MaxEntries: 3})
	c.Now = rapid.IntRange(0, 3).Draw(t, "now") == 0
	for i := range c.Doc.Records {
		r := &c.Doc.Records[i]
		if oi := r.OpenIndex(); oi >= 0 {
			if !c.Now || r.Date.Days() != c.Env.NowDay && r.Date.Days() != c.Env.NowDay-1 || r.Entries[oi].Start.Off > (c.Env.NowDay-r.Date.Days())*1440+c.Env.NowMin() {
				if c.Now {
					// make the open range closable or drop it
					r.Entries[oi] = model.Entry{Kind: model.KDuration, Dur: model.Duration{Mins: 7, Lit: "7m"}, Summary: model.Texts("")}
				}
			}
		}
	}
	c.Layout = gen.Layout(t, len(c.Doc.Records))
	c.Agg = rapid.SampledFrom([]string{"day", "week", "month", "quarter", "year"}).Draw(t, "agg")
	c.Fill = rapid.Bool().Draw(t, "fill")
	c.Diff = rapid.Bool().Draw(t, "diff")
	c.Decimal = rapid.Bool().Draw(t, "decimal")
	if rapid.IntRange(0, 3).Draw(t, "filter") == 0 && len(c.Doc.Records) > 0 {
		d := c.Doc.Records[rapid.IntRange(0, len(c.Doc.Records)-1).Draw(t, "filterRec")].Date
		d.Slash = false
		if rapid.Bool().Draw(t, "filterSince") {
			c.Since = &d
		} else {
			c.Until = &d
		}
	}
	return c
}

// periodKey identifies the reference period of a day for an aggregation: (ordering key, label facts)
type refRow struct {
	key               int // chronological key of the period
	year, month, day  int
	week, quarter, wd int
	total, should     int
	hasRecords        bool
}

func periodOf(agg string, day int) refRow {
	y, m, d := model.CivilFromDays(day)
	r := refRow{year: y, month: m, day: d, wd: model.WeekdayOfDays(day), quarter: model.Quarter(m)}
	switch agg {
	case "day":
		r.key = day
	case "week":
		w, wy := model.ISOWeek(y, m, d)
		r.week, r.year = w, wy
		r.key = wy*100 + w
	case "month":
		r.key = y*100 + m
	case "quarter":
		r.key = y*10 + r.quarter
	default:
		r.key = y
	}
	return r
}

func runeSlice(s string, a, b int) string {
	rs := []rune(s)
	if a > len(rs) {
		a = len(rs)
	}
	if b > len(rs) {
		b = len(rs)
	}
	return string(rs[a:b])
}

type tableRow struct {
	prefix string
	vals   []string
}

// parseTable splits a klog table (header, rows, ==== line, footer) using the runs of '=' as
// value column positions. All lines must have the same number of characters.
func parseTable(out string) (rows []tableRow, footer tableRow, err error) {
	lines := strings.Split(strings.Trim(out, "\n"), "\n") // blank framing lines are presentation
	if len(lines) < 3 {
		return nil, footer, fmt.Errorf("table has only %d lines", len(lines))
	}
	width := len([]rune(lines[0]))
	for i, l := range lines {
		if len([]rune(l)) != width {
			return nil, footer, fmt.Errorf("line %d has %d characters, the header has %d", i+1, len([]rune(l)), width)
		}
	}
	sep := []rune(lines[len(lines)-2])
	var spans [][2]int
	for i := 0; i < len(sep); {
		if sep[i] == '=' {
			j := i
			for j < len(sep) && sep[j] == '=' {
				j++
			}
			spans = append(spans, [2]int{i, j})
			i = j
		} else if sep[i] != ' ' {
			return nil, footer, fmt.Errorf("unexpected separator line %q", string(sep))
		} else {
			i++
		}
	}
	if len(spans) == 0 {
		return nil, footer, fmt.Errorf("no value columns found")
	}
	cut := func(l string) tableRow {
		r := tableRow{prefix: runeSlice(l, 0, spans[0][0])}
		for _, sp := range spans {
			r.vals = append(r.vals, strings.TrimSpace(runeSlice(l, sp[0], sp[1])))
		}
		return r
	}
	for _, l := range lines[1 : len(lines)-2] {
		rows = append(rows, cut(l))
	}
	return rows, cut(lines[len(lines)-1]), nil
}

func atoiVal(s string) (int, error) { return strconv.Atoi(strings.TrimSuffix(s, "!")) }

func checkC12(c caseC12) (Outcome, error) {
	var out Outcome
	text, _ := model.Render(c.Doc, c.Layout)
	h := newHarness(envTime(c.Env), "")
	defer h.Close()
	file := h.WriteFile("f.klg", text)
	filter := util.FilterArgs{}
	inFilter := func(r model.Record) bool {
		if c.Since != nil && r.Date.Days() < c.Since.Days() {
			return false
		}
		if c.Until != nil && r.Date.Days() > c.Until.Days() {
			return false
		}
		return true
	}
	if c.Since != nil {
		filter.Since = klogDate(*c.Since)
	}
	if c.Until != nil {
		filter.Until = klogDate(*c.Until)
	}
	// reference values per record (with --now: open ranges closed at the clock)
	type rv struct{ day, total, should int }
	var recs []rv
	grandTotal, grandShould := 0, 0
	for _, r := range c.Doc.Records {
		if !inFilter(r) {
			continue
		}
		t := r.Total()
		if c.Now {
			if oi := r.OpenIndex(); oi >= 0 {
				t += (c.Env.NowDay-r.Date.Days())*1440 + c.Env.NowMin() - r.Entries[oi].Start.Off
			}
		}
		recs = append(recs, rv{r.Date.Days(), t, r.ShouldMins()})
		grandTotal += t
		grandShould += r.ShouldMins()
	}
	// --- klog total
	tres := h.Run(&cli.Total{FilterArgs: filter, DiffArgs: util.DiffArgs{Diff: true}, NowArgs: util.NowArgs{Now: c.Now}, DecimalArgs: util.DecimalArgs{Decimal: true},
		WarnArgs: util.WarnArgs{NoWarn: true}, NoStyleArgs: util.NoStyleArgs{NoStyle: true}, InputFilesArgs: util.InputFilesArgs{File: fileArgs([]string{file})}})
	if tres.Err != nil {
		if !c.Now {
			return out, fmt.Errorf("klog total failed on a valid file: %s: %s\ntext: %s", tres.Err.Error(), tres.Err.Details(), quoteShort(text))
		}
		out.Label("total-failed") // --now that cannot close an open range: C17's subject
		return out, nil
	}
	tv, perr := parseTotalOutput(tres.Out, true)
	if perr != nil {
		return out, fmt.Errorf("cannot read klog total: %v", perr)
	}
	if tv["Total"] != grandTotal || tv["Should"] != grandShould || tv["Diff"] != grandTotal-grandShould {
		return out, fmt.Errorf("klog total = %d/%d/%d, reference %d/%d/%d\ntext: %s", tv["Total"], tv["Should"], tv["Diff"], grandTotal, grandShould, grandTotal-grandShould, quoteShort(text))
	}
	// --- klog report
	rres := h.Run(&cli.Report{AggregateBy: c.Agg, Fill: c.Fill, DiffArgs: util.DiffArgs{Diff: c.Diff}, FilterArgs: filter, NowArgs: util.NowArgs{Now: c.Now},
		DecimalArgs: util.DecimalArgs{Decimal: true}, WarnArgs: util.WarnArgs{NoWarn: true}, NoStyleArgs: util.NoStyleArgs{NoStyle: true}, InputFilesArgs: util.InputFilesArgs{File: fileArgs([]string{file})}})
	if rres.Err != nil {
		return out, fmt.Errorf("klog report failed: %s", rres.Err.Error())
	}
	where := func() string {
		return fmt.Sprintf("klog report --aggregate %s fill=%v diff=%v now=%v since=%v until=%v at %s\ntext: %s\nreport:\n%s", c.Agg, c.Fill, c.Diff, c.Now, c.Since, c.Until, envString(c.Env), quoteShort(text), rres.Out)
	}
	if len(recs) == 0 {
		// what a report of nothing prints (nothing, today) is presentation; it must not show numbers
		if strings.ContainsAny(rres.Out, "123456789") {
			return out, fmt.Errorf("report of no records shows values\n%s", where())
		}
		out.Label("no-records")
	} else {
		rows, footer, err := parseTable(rres.Out)
		if err != nil {
			return out, fmt.Errorf("%v\n%s", err, where())
		}
		// reference rows
		byKey := map[int]*refRow{}
		var order []int
		minDay, maxDay := recs[0].day, recs[0].day
		for _, r := range recs {
			if r.day < minDay {
				minDay = r.day
			}
			if r.day > maxDay {
				maxDay = r.day
			}
		}
		add := func(day int) *refRow {
			p := periodOf(c.Agg, day)
			if ex, ok := byKey[p.key]; ok {
				return ex
			}
			byKey[p.key] = &p
			order = append(order, p.key)
			return &p
		}
		if c.Fill {
			for d := minDay; d <= maxDay; d++ {
				add(d)
			}
		}
		for _, r := range recs {
			p := add(r.day)
			p.total += r.total
			p.should += r.should
			p.hasRecords = true
		}
		sort.Ints(order)
		if len(rows) != len(order) {
			return out, fmt.Errorf("report has %d rows, the records fall into %d periods (fill=%v)\n%s", len(rows), len(order), c.Fill, where())
		}
		sumT, sumS, sumD := 0, 0, 0
		for i, key := range order {
			p := byKey[key]
			row := rows[i]
			nvals := 1
			if c.Diff {
				nvals = 3
			}
			if len(row.vals) != nvals {
				return out, fmt.Errorf("row %d has %d value columns, want %d\n%s", i, len(row.vals), nvals, where())
			}
			if !p.hasRecords {
				for _, v := range row.vals {
					if v != "" {
						return out, fmt.Errorf("row %d is a filled gap but shows %q\n%s", i, v, where())
					}
				}
			} else {
				tv, e1 := atoiVal(row.vals[0])
				if e1 != nil || tv != p.total {
					return out, fmt.Errorf("row %d (%q) shows total %q, the records of that period sum to %d\n%s", i, row.prefix, row.vals[0], p.total, where())
				}
				sumT += tv
				if c.Diff {
					sv, e2 := atoiVal(row.vals[1])
					dv, e3 := atoiVal(row.vals[2])
					if e2 != nil || e3 != nil || sv != p.should || dv != p.total-p.should {
						return out, fmt.Errorf("row %d (%q) shows should/diff %q/%q, reference %d/%d\n%s", i, row.prefix, row.vals[1], row.vals[2], p.should, p.total-p.should, where())
					}
					sumS += sv
					sumD += dv
				}
			}
			if err := checkRowLabel(c.Agg, row.prefix, *p); err != nil {
				return out, fmt.Errorf("row %d: %v\n%s", i, err, where())
			}
		}
		ft, e1 := atoiVal(footer.vals[0])
		if e1 != nil || ft != grandTotal || ft != sumT {
			return out, fmt.Errorf("footer total %q; rows sum to %d; klog total / reference %d\n%s", footer.vals[0], sumT, grandTotal, where())
		}
		if c.Diff {
			fs, _ := atoiVal(footer.vals[1])
			fd, _ := atoiVal(footer.vals[2])
			if fs != grandShould || fd != grandTotal-grandShould || fs != sumS || fd != sumD {
				return out, fmt.Errorf("footer should/diff %q/%q; rows sum to %d/%d; reference %d/%d\n%s", footer.vals[1], footer.vals[2], sumS, sumD, grandShould, grandTotal-grandShould, where())
			}
		}
		// non-triviality
		years := map[int]bool{}
		dup := false
		seen := map[int]bool{}
		for _, r := range recs {
			y, m, d := model.CivilFromDays(r.day)
			_, wy := model.ISOWeek(y, m, d)
			years[y] = true
			if wy != y {
				years[-1] = true
			}
			if seen[r.day] {
				dup = true
			}
			seen[r.day] = true
		}
		out.NonTrivial = len(rows) >= 2 && (len(years) > 1 || dup)
	}
	out.Label("agg:" + c.Agg)
	if c.Fill {
		out.Label("fill")
	}

	// --- klog today: current + other == all == total
	if err := checkToday(c, h, file, text); err != nil {
		return out, err
	}
	// --- print --with-totals
	if c.Since == nil && c.Until == nil && !c.Now {
		if err := checkWithTotals(c, h, file, text); err != nil {
			return out, err
		}
	}
	return out, nil
}

func checkRowLabel(agg, prefix string, p refRow) error {
	f := strings.Fields(prefix)
	i := 0
	isNum := func(s string) bool { _, err := strconv.Atoi(s); return err == nil && !strings.HasSuffix(s, ".") }
	if agg == "year" {
		if len(f) != 1 || f[0] != fmt.Sprint(p.year) {
			return fmt.Errorf("label %q does not denote year %d", prefix, p.year)
		}
		return nil
	}
	if i < len(f) && isNum(f[i]) {
		if f[i] != fmt.Sprint(p.year) {
			return fmt.Errorf("label %q shows year %s, the period belongs to %d", prefix, f[i], p.year)
		}
		i++
	}
	rest := f[i:]
	switch agg {
	case "day":
		if len(rest) == 3 {
			if rest[0] != monthNames[p.month-1] {
				return fmt.Errorf("label %q shows month %s, want %s", prefix, rest[0], monthNames[p.month-1])
			}
			rest = rest[1:]
		}
		if len(rest) != 2 || rest[0] != dayNames[p.wd-1] || rest[1] != fmt.Sprintf("%d.", p.day) {
			return fmt.Errorf("label %q does not denote %s %d.", prefix, dayNames[p.wd-1], p.day)
		}
	case "week":
		if len(rest) != 2 || rest[0] != "Week" || rest[1] != fmt.Sprint(p.week) {
			return fmt.Errorf("label %q does not denote week %d of %d", prefix, p.week, p.year)
		}
	case "month":
		if len(rest) != 1 || rest[0] != monthNames[p.month-1] {
			return fmt.Errorf("label %q does not denote %s", prefix, monthNames[p.month-1])
		}
	case "quarter":
		if len(rest) != 1 || rest[0] != fmt.Sprintf("Q%d", p.quarter) {
			return fmt.Errorf("label %q does not denote Q%d", prefix, p.quarter)
		}
	}
	return nil
}

func checkToday(c caseC12, h *harness, file, text string) error {
	res := h.Run(&cli.Today{DiffArgs: util.DiffArgs{Diff: true}, NowArgs: util.NowArgs{Now: c.Now}, DecimalArgs: util.DecimalArgs{Decimal: true},
		WarnArgs: util.WarnArgs{NoWarn: true}, NoStyleArgs: util.NoStyleArgs{NoStyle: true}, InputFilesArgs: util.InputFilesArgs{File: fileArgs([]string{file})}})
	if res.Err != nil {
		if !c.Now {
			return fmt.Errorf("klog today failed: %s: %s\ntext: %s", res.Err.Error(), res.Err.Details(), quoteShort(text))
		}
		return nil // --now that cannot close an open range: C17's subject
	}
	var cur, oth [2]int // total, should
	hasToday, hasYesterday := false, false
	for _, r := range c.Doc.Records {
		if r.Date.Days() == c.Env.NowDay {
			hasToday = true
		}
		if r.Date.Days() == c.Env.NowDay-1 {
			hasYesterday = true
		}
	}
	curDay := -1 << 40
	hasCurrent := hasToday || hasYesterday
	label := "Today"
	if hasToday {
		curDay = c.Env.NowDay
	} else if hasYesterday {
		curDay = c.Env.NowDay - 1
		label = "Yesterday"
	}
	all := [2]int{}
	for _, r := range c.Doc.Records {
		t := r.Total()
		if c.Now {
			if oi := r.OpenIndex(); oi >= 0 {
				t += (c.Env.NowDay-r.Date.Days())*1440 + c.Env.NowMin() - r.Entries[oi].Start.Off
			}
		}
		if r.Date.Days() == curDay {
			cur[0] += t
			cur[1] += r.ShouldMins()
		} else {
			oth[0] += t
			oth[1] += r.ShouldMins()
		}
		all[0] += t
		all[1] += r.ShouldMins()
	}
	lines := strings.Split(strings.Trim(res.Out, "\n"), "\n") // blank framing lines are presentation
	if len(lines) != 5 {
		return fmt.Errorf("klog today printed %d lines\n%s", len(lines), res.Out)
	}
	w := len([]rune(lines[0]))
	for _, l := range lines {
		if len([]rune(l)) != w {
			return fmt.Errorf("klog today: rows differ in width\n%s", res.Out)
		}
	}
	read := func(line string, name string) ([]string, error) {
		f := strings.Fields(line)
		if len(f) < 2 || f[0] != name {
			return nil, fmt.Errorf("klog today: expected row %q, got %q", name, line)
		}
		return f[1:], nil
	}
	cf, err := read(lines[1], label)
	if err != nil {
		return fmt.Errorf("%v\ntext: %s\n%s", err, quoteShort(text), res.Out)
	}
	of, err := read(lines[2], "Other")
	if err != nil {
		return err
	}
	af, err := read(lines[4], "All")
	if err != nil {
		return err
	}
	chk := func(f []string, want [2]int, na bool, name string) error {
		if na {
			if f[0] != "n/a" {
				return fmt.Errorf("klog today: row %s should be n/a: %v", name, f)
			}
			return nil
		}
		t, e1 := atoiVal(f[0])
		s, e2 := atoiVal(f[1])
		d, e3 := atoiVal(f[2])
		if e1 != nil || e2 != nil || e3 != nil || t != want[0] || s != want[1] || d != want[0]-want[1] {
			return fmt.Errorf("klog today at %s: row %s shows %v, reference total/should/diff %d/%d/%d\ntext: %s\n%s", envString(c.Env), name, f, want[0], want[1], want[0]-want[1], quoteShort(text), res.Out)
		}
		return nil
	}
	if err := chk(cf, cur, !hasCurrent, label); err != nil {
		return err
	}
	if err := chk(of, oth, false, "Other"); err != nil {
		return err
	}
	return chk(af, all, false, "All")
}

func checkWithTotals(c caseC12, h *harness, file, text string) error {
	res := h.RunPrint([]string{file}, true, true, util.FilterArgs{}, "")
	if res.Err != nil {
		return fmt.Errorf("print --with-totals failed: %s", res.Err.Error())
	}
	if len(c.Doc.Records) == 0 {
		return nil
	}
	// expected sequence of values: "" = no value on that line, "-" = blank separator line
	var want []string
	for ri, r := range c.Doc.Records {
		if ri > 0 {
			want = append(want, "-")
		}
		want = append(want, model.CanonDuration(r.Total(), false, 0))
		for range r.Summary {
			want = append(want, "")
		}
		for _, e := range r.Entries {
			want = append(want, model.CanonDuration(e.Minutes(), false, 0))
			for k := 1; k < len(e.Summary); k++ {
				want = append(want, "")
			}
		}
	}
	body := strings.Trim(res.Out, "\n") // blank framing lines are presentation
	lines := strings.Split(body, "\n")
	if len(lines) != len(want) {
		return fmt.Errorf("print --with-totals printed %d lines, expected %d\ntext: %s\noutput: %s", len(lines), len(want), quoteShort(text), quoteShort(res.Out))
	}
	for i, l := range lines {
		if want[i] == "-" {
			if l != "" {
				return fmt.Errorf("print --with-totals: line %d should be empty: %q", i, l)
			}
			continue
		}
		k := strings.Index(l, "  |  ")
		if k < 0 {
			return fmt.Errorf("print --with-totals: line %d has no column separator: %q", i, l)
		}
		got := strings.TrimSpace(l[:k])
		if got != want[i] {
			return fmt.Errorf("print --with-totals: line %d shows %q, reference %q\ntext: %s\noutput: %s", i, got, want[i], quoteShort(text), quoteShort(res.Out))
		}
	}
	return nil
}

var _ = klog.NewDate

func TestC12(t *testing.T) {
	Run(t, Prop[caseC12]{ID: "C12", Gen: genC12, Check: checkC12})
}
