package props

import (
	"encoding/json"
	"os"
	"path/filepath"
	"testing"

	"verifharness/evid"
	"verifharness/model"
)

// TestMkReplays writes the witness files of the confirmed findings into $VERIF_MKREPLAYS
// (maintenance aid, not a check).
func TestMkReplays(t *testing.T) {
	dir := os.Getenv("VERIF_MKREPLAYS")
	if dir == "" {
		t.Skip()
	}
	write := func(id, name, what string, c any) {
		b, _ := json.Marshal(c)
		f := evid.Failure{Property: id, Error: what, Case: b}
		out, _ := json.MarshalIndent(f, "", " ")
		os.MkdirAll(filepath.Join(dir, id), 0o755)
		if err := os.WriteFile(filepath.Join(dir, id, name+".json"), out, 0o644); err != nil {
			t.Fatal(err)
		}
	}
	dur := func(m int) model.Entry {
		return model.Entry{Kind: model.KDuration, Dur: model.Duration{Mins: m, Lit: model.CanonDuration(m, false, 0)}, Summary: model.Texts("")}
	}
	date := func(y, m, d int) model.Date { return model.Date{Y: y, M: m, D: d} }

	// F1: text ending in an invalid UTF-8 byte
	write("C06", "fixed_F1_trailing_invalid_utf8", "ParseBlock panicked on a text whose last byte is not valid UTF-8", caseC06{Text: "2020-01-01\n\t1h foo\xff"})
	write("C06", "fixed_F1_single_invalid_byte", "ParseBlock panicked on a text whose last byte is not valid UTF-8", caseC06{Text: "\xff"})
	e1 := dur(60)
	e1.Summary = model.Texts("foo\xff")
	write("C08", "fixed_F1_trailing_invalid_utf8", "ParseBlock panicked on a text whose last byte is not valid UTF-8",
		caseC08{Doc: model.Doc{Records: []model.Record{{Date: date(2020, 1, 1), Entries: []model.Entry{e1}}}}, Layout: model.Layout{Indent: []string{"\t"}}, Workers: 3})
	// F2, F3: known findings (witnesses bypass the exclusion predicates)
	write("C06", "known_F2_unrepresentable_duration_literal", "duration literal beyond int64 minutes panics", caseC06{Text: "2020-01-01\n\t99999999999999999999h\n", NoExclusions: true})
	write("C06", "known_F3_total_overflow", "sum of durations beyond int64 minutes panics", caseC06{Text: "2020-01-01\n\t153722867280912930h\n\t153722867280912930h\n", NoExclusions: true})
	// F4: malformed continuation line reported one line late (and not displayable at the end of a block)
	e4 := dur(60)
	e4.Summary = model.Texts("", "more")
	doc4 := model.Doc{Records: []model.Record{{Date: date(2020, 1, 1), Entries: []model.Entry{e4}}}}
	write("C10", "fixed_F4_summary_error_line", "malformed entry summary line reported on the following line", caseC10{Doc: doc4, Layout: model.Layout{}, Faults: []model.Fault{{Op: "blank-only-continuation", Sel: 0, Var: 0}}, Workers: 2})
	doc4b := model.Doc{Records: []model.Record{{Date: date(2020, 1, 1), Entries: []model.Entry{e4, dur(5)}}, {Date: date(2020, 1, 2)}}}
	write("C10", "fixed_F4_summary_error_line_middle", "malformed entry summary line reported on the following line", caseC10{Doc: doc4b, Layout: model.Layout{FinalEOL: true}, Faults: []model.Fault{{Op: "blank-only-continuation", Sel: 0, Var: 1}}, Workers: 3})
	// F11: indentation error length in bytes
	e11 := dur(30)
	e11.Summary = model.Texts("日本語 üü")
	doc11 := model.Doc{Records: []model.Record{{Date: date(2020, 1, 1), Entries: []model.Entry{dur(60), e11}}}}
	write("C10", "fixed_F11_indentation_error_length", "ErrorIllegalIndentation length counted in bytes", caseC10{Doc: doc11, Layout: model.Layout{FinalEOL: true}, Faults: []model.Fault{{Op: "unindented-entry", Sel: 0, Var: 0}}, Workers: 2})
	// F5: style election tie
	doc5 := model.Doc{Records: []model.Record{{Date: date(2020, 1, 1), Entries: []model.Entry{dur(60)}}, {Date: date(2020, 1, 2), Entries: []model.Entry{dur(60)}}}}
	trackE := dur(120)
	env5 := model.Env{NowDay: model.DaysFromCivil(2020, 1, 5), NowSec: 36000}
	write("C11", "fixed_F5_style_tie_nondeterministic", "indentation of a new record depended on map iteration order on a tie",
		caseC11{Doc: doc5, Layout: model.Layout{Indent: []string{"  ", "\t"}, FinalEOL: true}, Env: env5, Cmd: model.Cmd{Kind: "track", Entry: &trackE}})
	// F6: whitespace-only first line taken as indentation
	doc6 := model.Doc{Records: []model.Record{{Date: date(2020, 1, 1), Entries: []model.Entry{dur(60)}}}}
	env6 := model.Env{NowDay: model.DaysFromCivil(2020, 1, 1), NowSec: 36000}
	write("C11", "fixed_F6_blank_line_indentation", "whitespace-only blank line taken for the record's indentation", caseC11{Doc: doc6, Layout: model.Layout{Indent: []string{"\t"}, Blanks: [][]string{{"  "}}, FinalEOL: true}, Env: env6, Cmd: model.Cmd{Kind: "track", Entry: &trackE}})
	write("C04", "fixed_F6_blank_line_indentation", "valid track command failed on a valid file", caseC04{Doc: doc6, Layout: model.Layout{Indent: []string{"\t"}, Blanks: [][]string{{"  "}}, FinalEOL: true}, Env: env6, Steps: []stepC04{{Cmd: model.Cmd{Kind: "track", Entry: &trackE}}}})
	// F7: nil time after an ignored Plus error
	write("C17", "fixed_F7_start_yesterday_rounded_to_2400", "start --yesterday --round 5m at 23:58 crashed", caseC17{Day: 0, Min: 1438, Round: 5, DateSel: "yesterday", Layout: 0, Op: "start"})
	write("C17", "fixed_F7_stop_fallback_rounded_to_2400", "stop --round 5m at 23:58 with the open range in yesterday's record crashed", caseC17{Day: 0, Min: 1438, Round: 5, DateSel: "", Layout: 3, Op: "stop"})
	write("C17", "fixed_F7_stop_yesterday_two_days_back", "stop --yesterday with the open range two days back crashed", caseC17{Day: 0, Min: 720, Round: 0, DateSel: "yesterday", Layout: 3, Op: "stop"})
	// F8: pause --extend on an unsigned zero pause
	open := model.Entry{Kind: model.KOpen, Start: model.Time{Off: 480, Lit: "8:00"}, DashL: " ", DashR: " ", QMarks: 1, Summary: model.Texts("")}
	pause := model.Entry{Kind: model.KDuration, Dur: model.Duration{Mins: 0, Lit: "0m"}, Summary: model.Texts("pause-break")}
	doc8 := model.Doc{Records: []model.Record{{Date: date(2020, 1, 1), Entries: []model.Entry{open, pause}}}}
	write("C03", "fixed_F8_pause_extend_corrupts_summary", "pause --extend rewrote the summary instead of the duration", caseC03{Doc: doc8, Layout: model.Layout{Indent: []string{"\t"}, FinalEOL: true}, Env: env6, Cmd: model.Cmd{Kind: "pause", Extend: true, Ticks: []int{61}}})
	write("C04", "fixed_F8_pause_extend_corrupts_summary", "pause --extend rewrote the summary instead of the duration", caseC04{Doc: doc8, Layout: model.Layout{Indent: []string{"\t"}, FinalEOL: true}, Env: env6, Steps: []stepC04{{Cmd: model.Cmd{Kind: "pause", Extend: true, Ticks: []int{61}}}}})
	// F9: week pattern beyond the calendar
	write("C15", "fixed_F9_week_pattern_9999_W53", "--period 9999-W53 panicked", caseC15{Part: "pattern", S: "9999-W53"})
	write("C15", "fixed_F9_week_pattern_9999_W99", "--period 9999-W99 panicked", caseC15{Part: "pattern", S: "9999-W99"})
	write("C15", "fixed_F14_week_pattern_9999_W52", "--period 9999-W52 panicked", caseC15{Part: "pattern", S: "9999-W52"})
	// F10: known finding: summary line ending in a lone CR does not survive printing
	e10 := dur(60)
	e10.Summary = model.Texts("foo\r")
	doc10 := model.Doc{Records: []model.Record{{Date: date(2020, 1, 1), Entries: []model.Entry{e10}}}}
	write("C09", "known_F10_summary_ending_in_lone_CR", "summary line ending in a lone CR", caseC09{Doc: doc10, Layout: model.Layout{EOLMode: 1, FinalEOL: true}})
	// F12: chunk boundary inside the CRLF of a blank line that follows a blank line
	write("C07", "fixed_F12_crlf_chunk_split", "parallel parser moved a blank line to the next block", caseC07{Text: "2020-01-01\r\n\r\n2020-01-02\r\n\r\n\r\n2020-01-03\r\n\t1h 123456789\r\n", Workers: []int{2, 3, 4, 5, 6, 7, 8, 9, 10, 11, 12, 13, 14, 15, 16, 17, 18, 19, 20, 21, 22, 23, 24, 25, 26, 27, 28, 29, 30, 31, 32, 33, 34, 35, 36, 37, 38, 39, 40}})
	// F13: entry summary cut off at U+FFFD
	e13 := dur(60)
	e13.Summary = model.Texts("foo � bar")
	write("C01", "fixed_F13_summary_cut_at_replacement_char", "entry summary truncated at U+FFFD", caseC01{Doc: model.Doc{Records: []model.Record{{Date: date(2020, 1, 1), Entries: []model.Entry{e13}}}}, Layout: model.Layout{FinalEOL: true}})
	write("C09", "fixed_F13_summary_cut_at_replacement_char", "entry summary truncated at U+FFFD", caseC09{Doc: model.Doc{Records: []model.Record{{Date: date(2020, 1, 1), Entries: []model.Entry{e13}}}}, Layout: model.Layout{FinalEOL: true}})
	// F15: stop --date 0000-01-01 computed the day before although no fallback applies
	open15 := model.Entry{Kind: model.KOpen, Start: model.Time{Off: 480, Lit: "8:00"}, DashL: " ", DashR: " ", QMarks: 1, Summary: model.Texts("")}
	doc15 := model.Doc{Records: []model.Record{{Date: date(0, 1, 1), Entries: []model.Entry{open15}}}}
	stop15 := model.Cmd{Kind: "stop", DateSel: "explicit", Date: date(0, 1, 1), Time: &model.Time{Off: 540, Lit: "9:00"}}
	write("C04", "fixed_F15_stop_at_first_day", "stop --date 0000-01-01 panicked", caseC04{Doc: doc15, Layout: model.Layout{Indent: []string{"\t"}, FinalEOL: true}, Env: env6, Steps: []stepC04{{Cmd: stop15}}})
	// F3 as seen by C05: the warnings are computed after the write
	t5 := dur(1)
	write("C05", "known_F3_total_overflow_in_warnings", "evaluation of a file whose durations sum beyond int64 minutes panics after the file was written",
		caseC05{Text: "2020-01-01\n\t153722867280912930h\n\t30m\n", Env: env6, Cmd: model.Cmd{Kind: "track", Entry: &t5}, NoExclusions: true})
}
