package props

import (
	"fmt"
	"strings"
	"testing"

	"github.com/jotaen/klog/klog/app/cli/util"
	"github.com/jotaen/klog/klog/parser"
	"pgregory.net/rapid"
	"verifharness/evid"
	"verifharness/gen"
	"verifharness/model"
)

// C09 — printing a file yields an equivalent canonical file (round trip, fixed point).

type caseC09 struct {
	Doc    model.Doc
	Layout model.Layout
}

func genC09(t *rapid.T, ev *evid.Rec) caseC09 {
	before := gen.TrailingCRExcluded
	d := gen.Doc(t, gen.Opts{AllowMany: true, Controls: true, BigDurations: true, TabSeparators: true})
	for i := before; i < gen.TrailingCRExcluded; i++ {
		ev.Exclude("F10:summary-line-ending-in-lone-CR")
	}
	return caseC09{Doc: d, Layout: gen.Layout(t, len(d.Records))}
}

func checkC09(c caseC09) (Outcome, error) {
	var out Outcome
	text, _ := model.Render(c.Doc, c.Layout)
	h := newHarness(goTime(model.DaysFromCivil(2024, 5, 5), 600), "")
	defer h.Close()
	f := h.WriteFile("in.klg", text)
	r1 := h.RunPrint([]string{f}, false, true, util.FilterArgs{}, "")
	if r1.Err != nil {
		if _, _, errs := parser.NewSerialParser().Parse(text); errs != nil {
			out.Label("rejected-by-parser")
			return out, nil
		}
		return out, fmt.Errorf("klog print failed: %s", r1.Err.Error())
	}
	o1 := r1.Out
	// The model's prediction of the canonical form.
	// (klog surrounds the records with an empty line; that framing is presentation, not asserted)
	// A lopsided dash (`8:00- 9:00`) has no defined notation: any consistent reading is accepted.
	want, matched := model.CanonRender(c.Doc), false
	for rule := 0; rule < 4 && !matched; rule++ {
		if w := model.CanonRenderBy(c.Doc, rule); normShould(strings.Trim(o1, "\n")) == normShould(strings.Trim(w, "\n")) {
			matched = true
			if rule != 0 {
				out.Label("lopsided-dash-read-differently")
			}
		}
	}
	if !matched || (len(c.Doc.Records) == 0 && strings.TrimSpace(o1) != "") {
		return out, fmt.Errorf("print output is not the canonical form of the input\ninput: %s\ngot:   %s\nwant:  %s", quoteShort(text), quoteShort(o1), quoteShort(want))
	}
	// The output is a valid file that parses to the same records.
	records, _, errs := parser.NewSerialParser().Parse(o1)
	if errs != nil {
		return out, fmt.Errorf("print output does not parse: line %d %s\noutput: %s", errs[0].LineNumber(), errs[0].Code(), quoteShort(o1))
	}
	if err := compareDoc(c.Doc, records); err != nil {
		return out, fmt.Errorf("print output parses to different records: %v\ninput: %s\noutput: %s", err, quoteShort(text), quoteShort(o1))
	}
	// The same through klog's real entry point (argv, production context, real stdout): what the
	// user sees is that canonical text too.
	if len(text)%4 == 0 {
		code, rerr, realOut := h.RunMain([]string{"print", "--no-style", "--no-warn", f}, -1)
		if code != 0 {
			return out, fmt.Errorf("`klog print --no-style FILE` through klog.Run exits with %d (%v)\ninput: %s", code, rerr, quoteShort(text))
		}
		if strings.Trim(realOut, "\n") != strings.Trim(o1, "\n") {
			return out, fmt.Errorf("`klog print --no-style FILE` through klog.Run writes something else to stdout than the canonical form\ninput:  %s\nstdout: %s\nwant:   %s", quoteShort(text), quoteShort(realOut), quoteShort(o1))
		}
		out.Label("via-klog.Run")
	}
	// Fixed point.
	f2 := h.WriteFile("out.klg", o1)
	r2 := h.RunPrint([]string{f2}, false, true, util.FilterArgs{}, "")
	if r2.Err != nil || r2.Out != o1 {
		return out, fmt.Errorf("printing the print output changed it\nfirst:  %s\nsecond: %s", quoteShort(o1), quoteShort(r2.Out))
	}
	out.NonTrivial = len(c.Doc.Records) > 0 && text != model.CanonRender(c.Doc)
	return out, nil
}

// normShould removes what the property leaves open about the spelling of a should-total on a
// headline: an explicit plus sign (`(+8h!)`) and a should-total of zero (`(0m!)`, which klog omits).
// The values are compared through the re-parse (compareDoc).
func normShould(text string) string {
	lines := strings.Split(text, "\n")
	for i, l := range lines {
		if l == "" || l[0] == ' ' || l[0] == '\t' {
			continue
		}
		k := strings.Index(l, " (")
		if k < 0 || !strings.HasSuffix(l, "!)") {
			continue
		}
		lit := strings.TrimPrefix(l[k+2:len(l)-2], "+")
		if lit == "0m" || lit == "-0m" || lit == "0h" || lit == "0h0m" {
			lines[i] = l[:k]
		} else {
			lines[i] = l[:k+2] + lit + "!)"
		}
	}
	return strings.Join(lines, "\n")
}

func TestC09(t *testing.T) {
	Run(t, Prop[caseC09]{ID: "C09", Gen: genC09, Check: checkC09})
}
