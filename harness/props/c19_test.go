package props

import (
	"fmt"
	"os"
	"path/filepath"
	"sort"
	"strings"
	"testing"

	"github.com/jotaen/klog/klog/app"
	"github.com/jotaen/klog/klog/app/cli"
	"pgregory.net/rapid"
	"verifharness/evid"
	"verifharness/model"
)

// C19 — the bookmark database behaves as a persistent name-to-file map.

type opC19 struct {
	Kind   string // set, unset, clear, list, info, info-dir, info-file, resolve
	Name   string
	File   int  // index into c19Files; len(c19Files) = a file that does not exist
	Rel    bool // pass the target as a path relative to the working directory
	Force  bool
	Create bool
	ViaCLI bool // run through klog.Run with real flag parsing
	// Answer, for clear: nil = --yes; otherwise no --yes and this is typed at the confirmation prompt
	Answer *string `json:",omitempty"`
}

type caseC19 struct {
	Ops []opC19
}

var c19Files = []string{"2023/times.klg", "2024/times.klg", "a.klg", "with space.klg", "quo\"te.klg", "ünï çödé.klg", "it's.klg", "semi;colon&amp.klg", "back\\slash.klg", "日本語.klg", "tab\there.klg", "@at.klg", "bell\a.klg", "del\x7f.klg", "esc\x1b[0m.klg"}
var c19Names = []string{"work", "@work", "Work", "ünï", "a b", "q\"uote", "it's", "back\\slash", "<&>", " ", "", "default", "@default", "x@y", "名前", "tab\tname", "@", "new\nline", "emoji🙂", "{json}", "a,b", "@日本", "bell\aname", "vt\vname", "del\x7fname", "\x01ctl", "flag\U000E0067\U000E007F", "esc\x1b"}

func c19NameOf(s string) string {
	s = strings.TrimPrefix(s, "@")
	if s == "" {
		return "default"
	}
	return s
}

func genC19(t *rapid.T, _ *evid.Rec) caseC19 {
	c := caseC19{}
	n := rapid.IntRange(1, 14).Draw(t, "nOps")
	var used []string
	for i := 0; i < n; i++ {
		op := opC19{}
		k := rapid.IntRange(0, 19).Draw(t, "opKind")
		pickName := func() string {
			if len(used) > 0 && rapid.IntRange(0, 2).Draw(t, "reuseName") != 0 {
				return rapid.SampledFrom(used).Draw(t, "usedName")
			}
			return rapid.SampledFrom(c19Names).Draw(t, "name")
		}
		switch {
		case k < 8:
			op.Kind = "set"
			op.Name = pickName()
			used = append(used, op.Name)
			op.File = rapid.IntRange(0, len(c19Files)-1).Draw(t, "file")
			op.Rel = rapid.IntRange(0, 2).Draw(t, "relativePath") == 0
			switch rapid.IntRange(0, 9).Draw(t, "setMode") {
			case 0:
				op.File = len(c19Files) // missing
			case 1:
				op.File, op.Force = len(c19Files), true
			case 2:
				op.File, op.Create = len(c19Files), true
			case 3:
				op.Create = true // the file already exists: must fail
			case 4:
				op.Force = true
			}
		case k < 12:
			op.Kind, op.Name = "unset", pickName()
		case k == 12:
			op.Kind = "clear"
			if rapid.IntRange(0, 1).Draw(t, "askConfirmation") == 1 {
				a := rapid.SampledFrom([]string{"y", "Y", "n", "N", ""}).Draw(t, "answer")
				op.Answer = &a
			}
		case k < 15:
			op.Kind = "list"
		case k < 17:
			op.Kind, op.Name = rapid.SampledFrom([]string{"info", "info-dir", "info-file"}).Draw(t, "infoKind"), pickName()
		default:
			op.Kind, op.Name = "resolve", pickName()
		}
		op.ViaCLI = rapid.IntRange(0, 3).Draw(t, "viaCLI") == 0 && !strings.HasPrefix(op.Name, "-") && op.Answer == nil
		c.Ops = append(c.Ops, op)
	}
	// every history ends with a read
	final := opC19{Kind: rapid.SampledFrom([]string{"list", "list", "resolve", "info"}).Draw(t, "finalKind")}
	if final.Kind != "list" {
		if len(used) > 0 {
			final.Name = rapid.SampledFrom(used).Draw(t, "finalName")
		} else {
			final.Name = "work"
		}
	}
	c.Ops = append(c.Ops, final)
	return c
}

type runnerE interface{ Run(app.Context) error }

func (h *harness) RunE(cmd runnerE) (string, error) {
	ctx := h.Ctx()
	err := cmd.Run(ctx)
	return ctx.out.String(), err
}

func errCode(err error) int {
	if err == nil {
		return 0
	}
	if ae, ok := err.(app.Error); ok {
		return ae.Code().ToInt()
	}
	return 1
}

func checkC19(c caseC19) (Outcome, error) {
	var out Outcome
	h := newHarness(goTime(model.DaysFromCivil(2024, 5, 5), 600), "")
	defer h.Close()
	os.MkdirAll(h.Path("files"), 0o755)
	// relative target paths are resolved against the working directory (process-global; the
	// checks of one process run sequentially)
	if wd, err := os.Getwd(); err == nil {
		defer os.Chdir(wd)
	}
	if err := os.Chdir(h.Path("files")); err != nil {
		return out, fmt.Errorf("harness: %v", err)
	}
	paths := make([]string, len(c19Files)+1)
	for i, f := range c19Files {
		paths[i] = filepath.Join(h.dir, "files", f)
		os.MkdirAll(filepath.Dir(paths[i]), 0o755)
		os.WriteFile(paths[i], []byte(fmt.Sprintf("2020-01-01\n\t%dh\n", i+1)), 0o644)
	}
	missingCounter := 0
	dbPath := filepath.Join(h.dir, "cfg", "bookmarks.json")
	m := map[string]string{}
	overwrites, unsets := 0, 0
	history := ""
	for oi, op := range c.Ops {
		file := ""
		if op.Kind == "set" {
			if op.File >= len(c19Files) {
				missingCounter++
				file = filepath.Join(h.dir, "files", fmt.Sprintf("missing %d.klg", missingCounter))
			} else {
				file = paths[op.File]
			}
		}
		name := c19NameOf(op.Name)
		fileArg := file
		if op.Kind == "set" && op.Rel {
			if rel, err := filepath.Rel(h.Path("files"), file); err == nil {
				fileArg = rel
			}
		}
		dbBefore, _ := os.ReadFile(dbPath)
		history += fmt.Sprintf("\n  [%d] %s name=%q file=%q force=%v create=%v cli=%v", oi, op.Kind, op.Name, filepath.Base(file), op.Force, op.Create, op.ViaCLI)
		fail := func(format string, a ...any) (Outcome, error) {
			return out, fmt.Errorf(format+"\nhistory:%s", append(a, history)...)
		}
		var outText string
		var err error
		if op.ViaCLI {
			args := []string{"bookmarks", op.Kind}
			nameArg := op.Name
			if nameArg == "" {
				nameArg = "@default"
			}
			switch op.Kind {
			case "set":
				if op.Force {
					args = append(args, "--force")
				}
				if op.Create {
					args = append(args, "--create")
				}
				args = append(args, fileArg)
				if op.Name != "" {
					args = append(args, op.Name)
				}
			case "unset":
				args = append(args, nameArg)
			case "clear":
				args = append(args, "--yes")
			case "list":
			case "info":
				args = append(args, nameArg)
			case "info-dir":
				args = []string{"bookmarks", "info", "--dir", nameArg}
			case "info-file":
				args = []string{"bookmarks", "info", "--file", nameArg}
			case "resolve":
				args = []string{"total", "--decimal", "--no-warn", "--no-style"}
				if !(name == "default" && len(op.Name) <= 1) {
					args = append(args, "@"+strings.TrimPrefix(op.Name, "@"))
				}
			}
			// real flag parsing; stdout is captured through a scratch file (restored by defer)
			code, rerr, so := h.RunMain(args, -1)
			outText = so
			if code != 0 {
				err = app.NewErrorWithCode(app.Code(code), fmt.Sprint(rerr), "", nil)
			}
		} else {
			switch op.Kind {
			case "set":
				outText, err = h.RunE(&cli.BookmarksSet{File: fileArg, Name: op.Name, Create: op.Create, Force: op.Force})
			case "unset":
				outText, err = h.RunE(&cli.BookmarksUnset{Name: op.Name})
			case "clear":
				h.answer = op.Answer
				outText, err = h.RunE(&cli.BookmarksClear{Yes: op.Answer == nil})
				h.answer = nil
			case "list":
				r := h.Run(&cli.BookmarksList{})
				outText = r.Out
				if r.Err != nil {
					err = r.Err
				}
			case "info":
				outText, err = h.RunE(&cli.BookmarksInfo{Name: op.Name})
			case "info-dir":
				outText, err = h.RunE(&cli.BookmarksInfo{Name: op.Name, Dir: true})
			case "info-file":
				outText, err = h.RunE(&cli.BookmarksInfo{Name: op.Name, File: true})
			case "resolve":
				arg := "@" + strings.TrimPrefix(op.Name, "@")
				files := []string{arg}
				if name == "default" && len(op.Name) <= 1 {
					files = nil // no argument: the default bookmark
				}
				r := h.RunTotal(files, false, false, true)
				outText = r.Out
				if r.Err != nil {
					err = r.Err
				}
			}
		}
		// expected outcome
		switch op.Kind {
		case "set":
			exists := op.File < len(c19Files)
			wantOK := true
			if op.Create && exists {
				wantOK = false
			}
			if !op.Create && !exists && !op.Force {
				wantOK = false
			}
			// Whether `set` refuses a missing target (without --force) or --create on an existing
			// file is klog's policy, not part of the property: what matters is that the map changes
			// exactly when the command succeeds. A plain set on an existing, valid file must work.
			if wantOK && err != nil {
				return fail("op %d: bookmarks set failed on an existing valid target: %v", oi, err)
			}
			if !wantOK && err == nil {
				out.Label("set-accepted-where-klog-refuses-today")
			}
			if err == nil {
				if _, had := m[name]; had {
					overwrites++
				}
				m[name] = file
			}
		case "unset":
			_, had := m[name]
			if (err == nil) != had {
				return fail("op %d: bookmarks unset %q succeeded=%v, but the name is known=%v", oi, op.Name, err == nil, had)
			}
			if !had {
				if errCode(err) == 0 {
					return fail("op %d: failing unset has exit status 0", oi)
				}
			} else {
				delete(m, name)
				unsets++
			}
		case "clear":
			confirmed := op.Answer == nil || strings.EqualFold(*op.Answer, "y")
			if err != nil && confirmed {
				return fail("op %d: bookmarks clear failed: %v", oi, err)
			}
			if confirmed {
				m = map[string]string{}
			} else {
				out.Label("clear-declined") // answered n/N/nothing at the prompt: nothing may be removed
			}
		case "list":
			if err != nil {
				return fail("op %d: bookmarks list failed: %v", oi, err)
			}
			// tolerant reading: one line per bookmark, in name order, each naming "@name" and the path
			var names []string
			for n := range m {
				names = append(names, n)
			}
			sort.Strings(names)
			outLines := []string{}
			for _, l := range strings.Split(strings.TrimRight(outText, "\n"), "\n") {
				if strings.TrimSpace(l) != "" {
					outLines = append(outLines, l)
				}
			}
			if len(m) == 0 {
				for _, l := range outLines {
					if strings.Contains(l, "->") || strings.Contains(l, h.dir) {
						return fail("op %d: bookmarks list shows %q although there are no bookmarks", oi, l)
					}
				}
			} else {
				// names and paths may contain newlines themselves: compare on the joined text
				// "ordered by name": by bytes, or by a case-insensitive order (the property does not say which)
				folded := append([]string(nil), names...)
				sort.SliceStable(folded, func(i, j int) bool { return strings.ToLower(folded[i]) < strings.ToLower(folded[j]) })
				var firstErr error
				for _, order := range [][]string{names, folded} {
					pos, bad := 0, error(nil)
					for _, n := range order {
						k1 := strings.Index(outText[pos:], "@"+n)
						if k1 < 0 {
							bad = fmt.Errorf("op %d: bookmarks list does not show @%s (in name order); output %q", oi, n, outText)
							break
						}
						k2 := strings.Index(outText[pos+k1:], m[n])
						if k2 < 0 {
							bad = fmt.Errorf("op %d: bookmarks list does not show the target of @%s (%s); output %q", oi, n, m[n], outText)
							break
						}
						pos += k1 + k2 + len(m[n])
					}
					if bad == nil {
						firstErr = nil
						break
					}
					if firstErr == nil {
						firstErr = bad
					}
				}
				if firstErr != nil {
					return fail("%v", firstErr)
				}
			}
		case "info", "info-dir", "info-file":
			p, had := m[name]
			if (err == nil) != had {
				return fail("op %d: bookmarks info %q succeeded=%v, known=%v", oi, op.Name, err == nil, had)
			}
			if had {
				want := p
				if op.Kind == "info-dir" {
					want = filepath.Dir(p)
				} else if op.Kind == "info-file" {
					want = filepath.Base(p)
				}
				if strings.TrimRight(strings.TrimSpace(outText), "/") != strings.TrimRight(want, "/") {
					return fail("op %d: bookmarks %s printed %q, want %q", oi, op.Kind, outText, want)
				}
			} else if errCode(err) == 0 {
				return fail("op %d: failing info has exit status 0", oi)
			}
		case "resolve":
			p, had := m[name]
			_, statErr := os.Stat(p)
			readable := had && statErr == nil
			if had && readable {
				st, _ := os.Stat(p)
				readable = st.Size() > 0 || true
			}
			if !had {
				if err == nil {
					return fail("op %d: `total @%s` succeeded for an unknown bookmark: %q", oi, name, outText)
				}
			} else if statErr != nil {
				if err == nil {
					return fail("op %d: `total @%s` succeeded although the target does not exist", oi, name)
				}
			} else {
				if err != nil {
					return fail("op %d: `total @%s` failed: %v", oi, name, err)
				}
				want := "Total: 0\n"
				for i := range c19Files {
					if paths[i] == p {
						want = fmt.Sprintf("Total: %d\n", (i+1)*60)
					}
				}
				if !strings.HasPrefix(strings.TrimLeft(outText, "\n"), want) { // blank framing lines are presentation
					return fail("op %d: `total @%s` printed %q, the bookmark points to %s (%s)", oi, name, outText, filepath.Base(p), strings.TrimSpace(want))
				}
			}
		}
		// a failed command leaves the database bytes unchanged
		dbAfter, _ := os.ReadFile(dbPath)
		if err != nil && string(dbAfter) != string(dbBefore) {
			return fail("op %d: the command failed but the bookmark database changed", oi)
		}
		// the database file reads back to exactly the map (fresh context = fresh process)
		bc, rerr := h.Ctx().ReadBookmarks()
		if rerr != nil {
			return fail("op %d: the bookmark database cannot be read back: %s\ncontent: %s", oi, rerr.Error(), quoteShort(string(dbAfter)))
		}
		all := bc.All()
		if len(all) != len(m) || bc.Count() != len(m) {
			return fail("op %d: the database holds %d bookmarks, the map %d\ncontent: %s", oi, len(all), len(m), quoteShort(string(dbAfter)))
		}
		prev := ""
		for i, b := range all {
			n := b.Name().Value()
			if p, ok := m[n]; !ok || p != b.Target().Path() {
				return fail("op %d: database entry %q -> %q, map has %q (present=%v)", oi, n, b.Target().Path(), p, ok)
			}
			if i > 0 && n < prev {
				return fail("op %d: All() is not ordered by name", oi)
			}
			prev = n
			if g := bc.Get(app.NewName("@" + n)); g == nil && !strings.HasPrefix(n, "@") {
				return fail("op %d: Get(@%s) finds nothing", oi, n)
			}
		}
		if len(dbAfter) > 0 {
			if _, jerr := model.ParseJSON(string(dbAfter)); jerr != nil {
				return fail("op %d: bookmarks.json is not well-formed JSON: %v", oi, jerr)
			}
		}
		if d := bc.Default(); (d != nil) != (m["default"] != "") {
			return fail("op %d: Default() present=%v, map has default=%v", oi, d != nil, m["default"] != "")
		}
	}
	last := c.Ops[len(c.Ops)-1].Kind
	out.NonTrivial = len(c.Ops) >= 4 && overwrites >= 1 && unsets >= 1 && (last == "list" || last == "resolve" || strings.HasPrefix(last, "info"))
	if overwrites > 0 {
		out.Label("overwrite")
	}
	if unsets > 0 {
		out.Label("unset")
	}
	return out, nil
}

func TestC19(t *testing.T) {
	Run(t, Prop[caseC19]{ID: "C19", Gen: genC19, Check: checkC19})
}
