package props

import (
	"fmt"
	"testing"

	"github.com/jotaen/klog/klog/parser"
	"pgregory.net/rapid"
	"verifharness/evid"
	"verifharness/gen"
	"verifharness/model"
)

// C01 — the parser accepts exactly spec-conforming files and extracts the denoted data.

type caseC01 struct {
	Doc    model.Doc
	Layout model.Layout
	Faults []model.Fault // empty: the text is valid by construction
	// Text, if set, is an arbitrary text that is classified by the reference recogniser
	// (model.Recognise) instead of being valid/invalid by construction.
	Text *model.Text `json:",omitempty"`
}

func genFaults(t *rapid.T, maxN int) []model.Fault {
	n := 1
	if maxN > 1 && rapid.IntRange(0, 3).Draw(t, "multiFault") == 0 {
		n = rapid.IntRange(2, maxN).Draw(t, "nFaults")
	}
	var fs []model.Fault
	for i := 0; i < n; i++ {
		fs = append(fs, model.Fault{
			Op:  rapid.SampledFrom(model.FaultOps).Draw(t, "faultOp"),
			Sel: rapid.IntRange(0, 40).Draw(t, "faultSel"),
			Var: rapid.IntRange(0, 40).Draw(t, "faultVar"),
		})
	}
	return fs
}

func genC01(t *rapid.T, _ *evid.Rec) caseC01 {
	o := gen.Opts{AllowMany: true, BigDurations: true}
	if rapid.IntRange(0, 3).Draw(t, "recogniserPart") == 0 {
		// arbitrary texts, classified by the reference recogniser
		var text string
		switch rapid.IntRange(0, 3).Draw(t, "textClass") {
		case 0:
			text = gen.Soup(t, "soup")
		default:
			d := gen.Doc(t, gen.Opts{MaxRecords: 4})
			l := gen.Layout(t, len(d.Records))
			var lines []model.LineInfo
			text, lines = model.Render(d, l)
			if rapid.Bool().Draw(t, "faultFirst") {
				if fl, _, applied := applyFaults(d, l, lines, genFaults(t, 2)); len(applied) > 0 {
					text = model.TextOf(fl)
				}
			}
			text = gen.Mutate(t, text, "mut")
		}
		mt := model.Text(text)
		return caseC01{Text: &mt}
	}
	d := gen.Doc(t, o)
	c := caseC01{Doc: d, Layout: gen.Layout(t, len(d.Records))}
	if rapid.Bool().Draw(t, "withFaults") {
		c.Faults = genFaults(t, 3)
	}
	return c
}

// applyFaults returns the faulted line table, the manifest line of the first applied fault
// (only meaningful when exactly one fault was applied) and the number of applied faults.
func applyFaults(d model.Doc, l model.Layout, lines []model.LineInfo, fs []model.Fault) ([]model.LineInfo, int, []string) {
	manifest := -1
	var applied []string
	for _, f := range fs {
		nl, m, ok := model.ApplyFault(d, l, lines, f)
		if !ok {
			continue
		}
		if manifest < 0 {
			manifest = m
		}
		applied = append(applied, f.Op)
		if len(nl) != len(lines) {
			// An insertion shifts the table: stop here.
			lines = nl
			break
		}
		// A line that was rewritten is not a candidate for further faults.
		for i := range nl {
			if nl[i].Text != lines[i].Text {
				nl[i].Role = "fault"
			}
		}
		lines = nl
	}
	return lines, manifest, applied
}

// checkRecognised compares klog's verdict on an arbitrary text with the reference recogniser.
func checkRecognised(text string) (Outcome, error) {
	var out Outcome
	if hasUnrepresentableDuration(text) {
		out.Label("excluded:F2-unrepresentable-duration-literal")
		return out, nil
	}
	rec := model.Recognise(text)
	if rec.Verdict == model.Unsure {
		out.Label("recogniser:unsure")
		return out, nil
	}
	records, blocks, errs := parser.NewSerialParser().Parse(text)
	if rec.Verdict == model.Invalid {
		out.Label("recogniser:invalid")
		_ = blocks
		if len(errs) == 0 || len(records) != 0 {
			return out, fmt.Errorf("the text breaks the specification (%s) but klog does not reject it (%d errors, %d records)\ntext: %s", rec, len(errs), len(records), quoteShort(text))
		}
		out.NonTrivial = true
		return out, nil
	}
	out.Label("recogniser:valid")
	if len(errs) != 0 {
		return out, fmt.Errorf("the text conforms to the specification (%d records) but klog rejects it: line %d %s\ntext: %s", len(rec.Doc.Records), errs[0].LineNumber(), errs[0].Code(), quoteShort(text))
	}
	if err := compareDoc(rec.Doc, records); err != nil {
		return out, fmt.Errorf("%v\ntext: %s", err, quoteShort(text))
	}
	out.NonTrivial = len(rec.Doc.Records) > 0
	return out, nil
}

func checkC01(c caseC01) (Outcome, error) {
	var out Outcome
	if c.Text != nil {
		return checkRecognised(string(*c.Text))
	}
	text, lines := model.Render(c.Doc, c.Layout)
	if len(c.Faults) == 0 {
		records, blocks, errs := parser.NewSerialParser().Parse(text)
		if errs != nil {
			e := errs[0]
			return out, fmt.Errorf("spec-conforming text rejected: line %d %s (%s)\ntext: %s", e.LineNumber(), e.Code(), e.Title(), quoteShort(text))
		}
		if len(blocks) != len(records) {
			return out, fmt.Errorf("%d blocks, %d records", len(blocks), len(records))
		}
		if err := compareDoc(c.Doc, records); err != nil {
			return out, fmt.Errorf("%v\ntext: %s", err, quoteShort(text))
		}
		hasEntry := false
		for _, r := range c.Doc.Records {
			if len(r.Entries) > 0 {
				hasEntry = true
			}
		}
		out.NonTrivial = hasEntry && text != model.CanonRender(c.Doc)
		out.Label("valid")
		return out, nil
	}
	flines, _, applied := applyFaults(c.Doc, c.Layout, lines, c.Faults)
	if len(applied) == 0 {
		out.Label("fault-not-applicable")
		return out, nil
	}
	ftext := model.TextOf(flines)
	records, blocks, errs := parser.NewSerialParser().Parse(ftext)
	_ = blocks
	if len(errs) == 0 || len(records) != 0 {
		return out, fmt.Errorf("text with rule violation(s) %v was not rejected (errors=%d, records=%d)\ntext: %s", applied, len(errs), len(records), quoteShort(ftext))
	}
	out.NonTrivial = true
	out.Label("fault")
	for _, a := range applied {
		out.Label("fault:" + a)
	}
	return out, nil
}

func TestC01(t *testing.T) {
	Run(t, Prop[caseC01]{ID: "C01", Gen: genC01, Check: checkC01})
}
