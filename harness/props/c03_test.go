package props

import (
	"fmt"
	"strings"
	"testing"

	"pgregory.net/rapid"
	"verifharness/evid"
	"verifharness/gen"
	"verifharness/model"
)

// C03 — mutating commands touch only the lines they are defined to change.

type caseC03 struct {
	Doc    model.Doc
	Layout model.Layout
	Env    model.Env
	Cmd    model.Cmd
}

func genC03(t *rapid.T, ev *evid.Rec) caseC03 {
	c := caseC03{Env: gen.Env(t, 0)}
	before := gen.TrailingCRExcluded
	c.Doc = gen.Doc(t, gen.Opts{MaxRecords: 5, NearDay: c.Env.NowDay, NearSpan: 3, MaxEntries: 4, Controls: true, InvalidUTF8: true})
	for i := before; i < gen.TrailingCRExcluded; i++ {
		ev.Exclude("summary-line-ending-in-lone-CR")
	}
	if rapid.Bool().Draw(t, "ensureOpen") {
		gen.EnsureOpenRange(t, &c.Doc, c.Env)
	}
	c.Layout = gen.Layout(t, len(c.Doc.Records))
	c.Cmd = gen.Cmd(t, c.Doc, c.Env, gen.CmdOpts{})
	return c
}

// rewriteRule says how line i of the original may be rewritten.
type rewriteRule struct {
	kind  string // "close" (open-range value line), "append" (last summary line of that entry), "pause" (duration token)
	entry [2]int // record, entry
	last  bool   // for "close": the value line is also the entry's last line (text may be appended)
}

// closeRewriteOK: a is b with the first run of '?' replaced by a time literal and, if allowed,
// text appended at the end.
func closeRewriteOK(b, a string, mayAppend bool) bool {
	q := strings.IndexByte(b, '?')
	if q < 0 {
		return false
	}
	qe := q
	for qe < len(b) && b[qe] == '?' {
		qe++
	}
	if !strings.HasPrefix(a, b[:q]) {
		return false
	}
	rest := a[q:]
	end := strings.IndexAny(rest, " \t")
	if end < 0 {
		end = len(rest)
	}
	if _, ok := model.ScanTime(rest[:end]); !ok {
		return false
	}
	rest = rest[end:]
	if !strings.HasPrefix(rest, b[qe:]) {
		return false
	}
	appended := rest[len(b[qe:]):]
	return appended == "" || mayAppend
}

// pauseRewriteOK: a is b with the first token after the indentation replaced by a duration.
func pauseRewriteOK(b, a, indent string) bool {
	if !strings.HasPrefix(b, indent) || !strings.HasPrefix(a, indent) {
		return false
	}
	bt, at := b[len(indent):], a[len(indent):]
	be := strings.IndexAny(bt, " \t")
	if be < 0 {
		be = len(bt)
	}
	ae := strings.IndexAny(at, " \t")
	if ae < 0 {
		ae = len(at)
	}
	if _, ok, _ := model.ScanDuration(at[:ae]); !ok {
		return false
	}
	return bt[be:] == at[ae:]
}

// matchEdits decides whether `after` is obtainable from `before` by the permitted edits.
// fromEnd selects the matching direction (tried both ways to be independent of how equal
// neighbouring lines are attributed).
func matchEdits(before, after []model.Line, rules map[int]rewriteRule, indents map[int]string, maxBlocks int) error {
	var errFwd error
	for _, greedyFromEnd := range []bool{false, true} {
		err := matchEditsDir(before, after, rules, indents, maxBlocks, greedyFromEnd)
		if err == nil {
			return nil
		}
		if errFwd == nil {
			errFwd = err
		}
	}
	return errFwd
}

func reverseLines(ls []model.Line) []model.Line {
	out := make([]model.Line, len(ls))
	for i, l := range ls {
		out[len(ls)-1-i] = l
	}
	return out
}

func matchEditsDir(before, after []model.Line, rules map[int]rewriteRule, indents map[int]string, maxBlocks int, fromEnd bool) error {
	n := len(before)
	B, A := before, after
	idx := func(i int) int { return i }
	if fromEnd {
		B, A = reverseLines(before), reverseLines(after)
		idx = func(i int) int { return n - 1 - i }
	}
	blocks := 0
	inBlock := false
	closed := [2]int{-1, -1}
	usedClose, usedPause := false, false
	insertedAfterFinal := false
	type pending struct{ line int }
	var eolGain []int
	j := 0
	matchLine := func(i int, a model.Line) (bool, string) {
		b := B[i]
		oi := idx(i)
		textOK := b.Text == a.Text
		how := ""
		if !textOK {
			if r, ok := rules[oi]; ok {
				switch r.kind {
				case "close":
					if !usedClose && closeRewriteOK(b.Text, a.Text, r.last) {
						textOK, how = true, "close"
					}
				case "append":
					if strings.HasPrefix(a.Text, b.Text) {
						textOK, how = true, "append"
					}
				case "pause":
					if !usedPause && pauseRewriteOK(b.Text, a.Text, indents[oi]) {
						textOK, how = true, "pause"
					}
				}
			}
		}
		if !textOK {
			return false, ""
		}
		if b.EOL != a.EOL {
			// only the previously final line may gain an ending
			if !(oi == n-1 && b.EOL == "" && a.EOL != "") {
				return false, ""
			}
			how += "+eol"
		}
		return true, how
	}
	for i := 0; i < len(B); i++ {
		for {
			if j >= len(A) {
				return fmt.Errorf("original line %d (%q) does not survive", idx(i)+1, B[i].Original())
			}
			ok, how := matchLine(i, A[j])
			if ok {
				oi := idx(i)
				if strings.HasPrefix(how, "close") {
					usedClose = true
					closed = rules[oi].entry
				}
				if strings.HasPrefix(how, "append") {
					if closed != rules[oi].entry && !fromEnd {
						return fmt.Errorf("text appended to line %d, which is not the last line of the closed entry", oi+1)
					}
				}
				if strings.HasPrefix(how, "pause") {
					usedPause = true
				}
				if strings.HasSuffix(how, "+eol") {
					eolGain = append(eolGain, oi)
				}
				inBlock = false
				j++
				break
			}
			// A[j] is an added line
			if !inBlock {
				blocks++
				inBlock = true
			}
			j++
		}
	}
	if j < len(A) {
		if !inBlock {
			blocks++
		}
		insertedAfterFinal = true
	}
	_ = insertedAfterFinal
	if blocks > maxBlocks {
		return fmt.Errorf("added lines form %d separate blocks (at most %d allowed)", blocks, maxBlocks)
	}
	for _, oi := range eolGain {
		// lines must have been added after the previously final line
		if len(after) <= len(before) {
			return fmt.Errorf("the final line %d gained a line ending although nothing was added after it", oi+1)
		}
	}
	return nil
}

func checkC03(c caseC03) (Outcome, error) {
	var out Outcome
	text, lines := model.Render(c.Doc, c.Layout)
	h := newHarness(envTime(c.Env), envConfig(c.Env, ""))
	defer h.Close()
	file := h.WriteFile("f.klg", text)
	res, ierr := h.RunCmd(c.Cmd, file)
	if ierr != nil {
		return out, fmt.Errorf("harness: %v", ierr)
	}
	if res.Err != nil {
		out.Label("command-failed") // C05's business
		return out, nil
	}
	afterText, _ := h.ReadFile("f.klg")
	before := model.SplitLines(text)
	after := model.SplitLines(afterText)
	allBlank := true
	for _, l := range before {
		if !model.IsBlankST(l.Text) {
			allBlank = false
		}
	}
	out.Label("ok:" + c.Cmd.Kind)
	if allBlank {
		out.Label("blank-only-file")
		return out, nil
	}
	// permitted rewrites
	rules := map[int]rewriteRule{}
	indents := map[int]string{}
	for i, li := range lines {
		if li.Role != model.RoleEntry {
			continue
		}
		e := c.Doc.Records[li.Rec].Entries[li.Entry]
		last := i + len(e.Summary) - 1
		if len(e.Summary) == 0 {
			last = i
		}
		switch {
		case (c.Cmd.Kind == "stop" || c.Cmd.Kind == "switch") && e.Kind == model.KOpen:
			rules[i] = rewriteRule{kind: "close", entry: [2]int{li.Rec, li.Entry}, last: last == i && c.Cmd.Kind == "stop"}
			if last > i && c.Cmd.Kind == "stop" {
				rules[last] = rewriteRule{kind: "append", entry: [2]int{li.Rec, li.Entry}}
			}
		case c.Cmd.Kind == "pause" && c.Cmd.Extend && e.Kind == model.KDuration && e.Dur.Mins <= 0:
			rules[i] = rewriteRule{kind: "pause", entry: [2]int{li.Rec, li.Entry}}
			indents[i] = c.Layout.IndentOf(li.Rec)
		}
	}
	if err := matchEdits(before, after, rules, indents, 1); err != nil {
		return out, fmt.Errorf("klog %s at %s: %v\nbefore: %s\nafter:  %s", cmdString(c.Cmd), envString(c.Env), err, quoteShort(text), quoteShort(afterText))
	}
	// non-triviality
	eols := map[string]bool{}
	for _, l := range before {
		eols[l.EOL] = true
	}
	mixed := eols["\n"] && eols["\r\n"] || eols["\r\n"]
	noFinal := len(before) > 0 && before[len(before)-1].EOL == ""
	// position of the first change
	p := 0
	for p < len(before) && p < len(after) && before[p] == after[p] {
		p++
	}
	notLast := p < len(before)-1
	out.NonTrivial = len(c.Doc.Records) >= 2 && (notLast || mixed || noFinal)
	if noFinal {
		out.Label("no-final-newline")
	}
	if mixed {
		out.Label("crlf-or-mixed")
	}
	return out, nil
}

func TestC03(t *testing.T) {
	Run(t, Prop[caseC03]{ID: "C03", Gen: genC03, Check: checkC03})
}
