package props

import (
	"fmt"
	"strings"
	"testing"

	"pgregory.net/rapid"
	"verifharness/evid"
	"verifharness/gen"
	"verifharness/model"
)

// C03 — mutating commands touch only the lines they are defined to change.

type caseC03 struct {
	Doc    model.Doc
	Layout model.Layout
	Env    model.Env
	Cmd    model.Cmd
}

func genC03(t *rapid.T, ev *evid.Rec) caseC03 {
	c := caseC03{Env: gen.Env(t, 0)}
	before := gen.TrailingCRExcluded
	c.Doc = gen.Doc(t, gen.Opts{MaxRecords: 5, NearDay: c.Env.NowDay, NearSpan: 3, MaxEntries: 4, Controls: true, InvalidUTF8: true, TabSeparators: true})
	if rapid.IntRange(0, 11).Draw(t, "edgeDates") == 0 {
		gen.EdgeDates(t, &c.Doc)
	}
	for i := before; i < gen.TrailingCRExcluded; i++ {
		ev.Exclude("summary-line-ending-in-lone-CR")
	}
	if rapid.Bool().Draw(t, "ensureOpen") {
		gen.EnsureOpenRange(t, &c.Doc, c.Env)
	}
	c.Layout = gen.Layout(t, len(c.Doc.Records))
	c.Cmd = gen.Cmd(t, c.Doc, c.Env, gen.CmdOpts{})
	return c
}

// rewriteRule says how line i of the original may be rewritten.
type rewriteRule struct {
	kind  string // "close" (open-range value line), "append" (last summary line of that entry), "pause" (duration token)
	entry [2]int // record, entry
	last  bool   // for "close": the value line is also the entry's last line (text may be appended)
}

// closeRewriteOK: a is b with the first run of '?' replaced by a time literal and, if allowed,
// text appended at the end.
func closeRewriteOK(b, a string, mayAppend bool) bool {
	q := strings.IndexByte(b, '?')
	if q < 0 {
		return false
	}
	qe := q
	for qe < len(b) && b[qe] == '?' {
		qe++
	}
	if !strings.HasPrefix(a, b[:q]) {
		return false
	}
	rest := a[q:]
	end := strings.IndexAny(rest, " \t")
	if end < 0 {
		end = len(rest)
	}
	if _, ok := model.ScanTime(rest[:end]); !ok {
		return false
	}
	rest = rest[end:]
	if !strings.HasPrefix(rest, b[qe:]) {
		return false
	}
	appended := rest[len(b[qe:]):]
	return appended == "" || mayAppend
}

// pauseRewriteOK: a is b with the first token after the indentation replaced by a duration.
func pauseRewriteOK(b, a, indent string) bool {
	if !strings.HasPrefix(b, indent) || !strings.HasPrefix(a, indent) {
		return false
	}
	bt, at := b[len(indent):], a[len(indent):]
	be := strings.IndexAny(bt, " \t")
	if be < 0 {
		be = len(bt)
	}
	ae := strings.IndexAny(at, " \t")
	if ae < 0 {
		ae = len(at)
	}
	if _, ok, _ := model.ScanDuration(at[:ae]); !ok {
		return false
	}
	return bt[be:] == at[ae:]
}

// matchEdits decides whether `after` is obtainable from `before` by the permitted edits: every
// original line survives in order (byte-for-byte, or through one of the permitted rewrites), and
// all added lines form ONE contiguous block. Because at most one block may be added, the result
// must be before[:p] + block + before[p:] for some p; every p is tried, so that equal neighbouring
// lines (blank lines, a new record whose headline equals an existing one) cannot confuse the
// attribution.
func matchEdits(before, after []model.Line, rules map[int]rewriteRule, indents map[int]string, maxBlocks int) error {
	n := len(before)
	k := len(after) - n
	if k < 0 {
		return fmt.Errorf("the result has %d lines fewer than the original", -k)
	}
	var firstErr error
	for p := 0; p <= n; p++ {
		err := matchAt(before, after, rules, indents, p, k)
		if err == nil {
			return nil
		}
		if firstErr == nil || p == n {
			firstErr = err
		}
		if k == 0 {
			break // nothing was added: the position is irrelevant
		}
	}
	return firstErr
}

// matchAt checks after == before[:p] + (k added lines) + before[p:] modulo the permitted rewrites.
func matchAt(before, after []model.Line, rules map[int]rewriteRule, indents map[int]string, p, k int) error {
	n := len(before)
	usedClose, usedPause := false, false
	closed := [2]int{-1, -1}
	var appended [][2]int
	for i := 0; i < n; i++ {
		b := before[i]
		a := after[i]
		if i >= p {
			a = after[i+k]
		}
		textOK := b.Text == a.Text
		if !textOK {
			r, ok := rules[i]
			if !ok {
				return fmt.Errorf("original line %d (%q) does not survive (it reads %q now)", i+1, b.Original(), a.Original())
			}
			switch r.kind {
			case "close":
				if usedClose || !closeRewriteOK(b.Text, a.Text, r.last) {
					return fmt.Errorf("line %d (%q) was rewritten to %q, which is not 'placeholder replaced by a time'", i+1, b.Text, a.Text)
				}
				usedClose, closed = true, r.entry
			case "append":
				if !strings.HasPrefix(a.Text, b.Text) {
					return fmt.Errorf("line %d (%q) was rewritten to %q, which is not an appended text", i+1, b.Text, a.Text)
				}
				appended = append(appended, r.entry)
			case "pause":
				if usedPause || !pauseRewriteOK(b.Text, a.Text, indents[i]) {
					return fmt.Errorf("line %d (%q) was rewritten to %q, which is not 'duration token replaced'", i+1, b.Text, a.Text)
				}
				usedPause = true
			}
		}
		if b.EOL != a.EOL {
			// only the previously final line may gain an ending, and only when lines follow it
			if !(i == n-1 && b.EOL == "" && a.EOL != "" && k > 0 && p == n) {
				return fmt.Errorf("line %d: line ending changed from %q to %q", i+1, b.EOL, a.EOL)
			}
		}
	}
	for _, e := range appended {
		if e != closed {
			return fmt.Errorf("text was appended to a line that is not the last line of the closed entry")
		}
	}
	return nil
}

func checkC03(c caseC03) (Outcome, error) {
	var out Outcome
	text, lines := model.Render(c.Doc, c.Layout)
	h := newHarness(envTime(c.Env), envConfig(c.Env, ""))
	defer h.Close()
	file := h.WriteFile("f.klg", text)
	res, ierr := h.RunCmd(c.Cmd, file)
	if ierr != nil {
		return out, fmt.Errorf("harness: %v", ierr)
	}
	if res.Err != nil {
		out.Label("command-failed") // C05's business
		return out, nil
	}
	afterText, _ := h.ReadFile("f.klg")
	before := model.SplitLines(text)
	after := model.SplitLines(afterText)
	allBlank := true
	for _, l := range before {
		if !model.IsBlankST(l.Text) {
			allBlank = false
		}
	}
	out.Label("ok:" + c.Cmd.Kind)
	if allBlank {
		out.Label("blank-only-file")
		return out, nil
	}
	// permitted rewrites
	rules := map[int]rewriteRule{}
	indents := map[int]string{}
	for i, li := range lines {
		if li.Role != model.RoleEntry {
			continue
		}
		e := c.Doc.Records[li.Rec].Entries[li.Entry]
		last := i + len(e.Summary) - 1
		if len(e.Summary) == 0 {
			last = i
		}
		switch {
		case (c.Cmd.Kind == "stop" || c.Cmd.Kind == "switch") && e.Kind == model.KOpen:
			rules[i] = rewriteRule{kind: "close", entry: [2]int{li.Rec, li.Entry}, last: last == i && c.Cmd.Kind == "stop"}
			if last > i && c.Cmd.Kind == "stop" {
				rules[last] = rewriteRule{kind: "append", entry: [2]int{li.Rec, li.Entry}}
			}
		case c.Cmd.Kind == "pause" && c.Cmd.Extend && e.Kind == model.KDuration && e.Dur.Mins <= 0:
			rules[i] = rewriteRule{kind: "pause", entry: [2]int{li.Rec, li.Entry}}
			indents[i] = c.Layout.IndentOf(li.Rec)
		}
	}
	if err := matchEdits(before, after, rules, indents, 1); err != nil {
		return out, fmt.Errorf("klog %s at %s: %v\nbefore: %s\nafter:  %s", cmdString(c.Cmd), envString(c.Env), err, quoteShort(text), quoteShort(afterText))
	}
	// non-triviality
	eols := map[string]bool{}
	for _, l := range before {
		eols[l.EOL] = true
	}
	mixed := eols["\n"] && eols["\r\n"] || eols["\r\n"]
	noFinal := len(before) > 0 && before[len(before)-1].EOL == ""
	// position of the first change
	p := 0
	for p < len(before) && p < len(after) && before[p] == after[p] {
		p++
	}
	notLast := p < len(before)-1
	out.NonTrivial = len(c.Doc.Records) >= 2 && (notLast || mixed || noFinal)
	if noFinal {
		out.Label("no-final-newline")
	}
	if mixed {
		out.Label("crlf-or-mixed")
	}
	return out, nil
}

func TestC03(t *testing.T) {
	Run(t, Prop[caseC03]{ID: "C03", Gen: genC03, Check: checkC03})
}
