package props

import (
	"fmt"
	"github.com/jotaen/klog/klog/parser"
	"sort"
	"strings"
	"testing"

	"github.com/jotaen/klog/klog/app/cli/util"
	"pgregory.net/rapid"
	"verifharness/evid"
	"verifharness/gen"
	"verifharness/model"
)

// C20 — the JSON output is well-formed and faithful to the data.

type caseC20 struct {
	Doc    model.Doc
	Layout model.Layout
	Faults []model.Fault
	Pretty bool
	Sort   string
	Since  *model.Date `json:",omitempty"` // --since filter
	Now    bool        `json:",omitempty"` // --now (open ranges closed at the clock of Env)
	Type   string      `json:",omitempty"` // --entry-type filter (range, open-range, duration)
	Env    model.Env
}

func genC20(t *rapid.T, ev *evid.Rec) caseC20 {
	before := gen.TrailingCRExcluded
	d := gen.Doc(t, gen.Opts{AllowMany: true, Controls: true, InvalidUTF8: true, BigDurations: true})
	for i := before; i < gen.TrailingCRExcluded; i++ {
		ev.Exclude("summary-line-ending-in-lone-CR")
	}
	c := caseC20{Doc: d, Layout: gen.Layout(t, len(d.Records))}
	if rapid.IntRange(0, 3).Draw(t, "invalid") == 0 {
		c.Faults = genFaults(t, 3)
	}
	c.Pretty = rapid.Bool().Draw(t, "pretty")
	c.Sort = rapid.SampledFrom([]string{"", "", "asc", "desc", "ASC"}).Draw(t, "sort")
	c.Env = model.Env{NowDay: model.DaysFromCivil(2024, 5, 5), NowSec: rapid.IntRange(0, 86399).Draw(t, "nowSec")}
	if len(d.Records) > 0 {
		c.Env.NowDay = d.Records[rapid.IntRange(0, len(d.Records)-1).Draw(t, "nowRec")].Date.Days() + rapid.IntRange(0, 1).Draw(t, "nowDelta")
		if c.Env.NowDay < model.MinDay+2 || c.Env.NowDay > model.MaxDay-2 {
			c.Env.NowDay = model.DaysFromCivil(2024, 5, 5)
		}
	}
	if len(c.Faults) == 0 {
		if len(d.Records) > 0 && rapid.IntRange(0, 3).Draw(t, "withSince") == 0 {
			sd := d.Records[rapid.IntRange(0, len(d.Records)-1).Draw(t, "sinceRec")].Date
			sd = model.DateOfDays(sd.Days()+rapid.IntRange(-1, 2).Draw(t, "sinceDelta"), false)
			if sd.Days() >= model.MinDay && sd.Days() <= model.MaxDay {
				c.Since = &sd
			}
		}
		c.Now = rapid.IntRange(0, 3).Draw(t, "now") == 0
		if c.Now {
			c.Since = nil // whether --now is applied before or after the filter is not C20's matter
		}
		if !c.Now && rapid.IntRange(0, 3).Draw(t, "withType") == 0 {
			c.Type = rapid.SampledFrom([]string{"range", "open-range", "duration"}).Draw(t, "entryType")
		}
	}
	return c
}

func jInt(o *model.JObject, k string) (int, error) {
	v, ok := o.Get(k)
	if !ok {
		return 0, fmt.Errorf("missing key %q", k)
	}
	n, ok := v.(model.JNumber)
	if !ok {
		return 0, fmt.Errorf("key %q is not a number", k)
	}
	return n.Int()
}

func jStr(o *model.JObject, k string) (string, error) {
	v, ok := o.Get(k)
	if !ok {
		return "", fmt.Errorf("missing key %q", k)
	}
	s, ok := v.(string)
	if !ok {
		return "", fmt.Errorf("key %q is not a string", k)
	}
	return s, nil
}

func jStrs(o *model.JObject, k string) ([]string, error) {
	v, ok := o.Get(k)
	if !ok {
		return nil, fmt.Errorf("missing key %q", k)
	}
	arr, ok := v.([]any)
	if !ok {
		return nil, fmt.Errorf("key %q is not an array", k)
	}
	out := []string{}
	for _, x := range arr {
		s, ok := x.(string)
		if !ok {
			return nil, fmt.Errorf("key %q has a non-string element", k)
		}
		out = append(out, s)
	}
	return out, nil
}

// asJSONText is what a byte string looks like after it went through a JSON string: every
// invalid byte is replaced by U+FFFD.
func asJSONText(s string) string { return string([]rune(s)) }

func wantInt(o *model.JObject, k string, want int) error {
	got, err := jInt(o, k)
	if err != nil {
		return err
	}
	if got != want {
		return fmt.Errorf("%s = %d, want %d", k, got, want)
	}
	return nil
}

func wantStr(o *model.JObject, k string, want string) error {
	got, err := jStr(o, k)
	if err != nil {
		return err
	}
	if got != want {
		return fmt.Errorf("%s = %q, want %q", k, got, want)
	}
	return nil
}

func wantTags(o *model.JObject, lines []model.Text) error {
	tags, unsure := model.TagsOfLines(model.Strs(lines))
	got, err := jStrs(o, "tags")
	if err != nil {
		return err
	}
	if unsure {
		return nil
	}
	want := model.SortedTagStrings(tags)
	for i := range want {
		want[i] = asJSONText(want[i])
	}
	sort.Strings(want)
	got = append([]string(nil), got...)
	sort.Strings(got) // the order of the tags array is not constrained by the property
	if strings.Join(got, "\x00") != strings.Join(want, "\x00") {
		return fmt.Errorf("tags = %q, want %q", got, want)
	}
	return nil
}

func firstErr(errs ...error) error {
	for _, e := range errs {
		if e != nil {
			return e
		}
	}
	return nil
}

func checkRecordJSON(o *model.JObject, r model.Record) error {
	total := r.Total()
	should := r.ShouldMins()
	shouldStr := "0m" // no should-total: klog shows a plain zero duration
	if r.Should != nil {
		shouldStr = model.CanonDuration(should, false, 0) + "!"
	}
	if err := firstErr(
		wantStr(o, "date", r.Date.Lit()),
		wantStr(o, "summary", asJSONText(strings.Join(model.Strs(r.Summary), "\n"))),
		wantInt(o, "total_mins", total),
		wantStr(o, "total", model.CanonDuration(total, false, 0)),
		wantInt(o, "should_total_mins", should),
		func() error { // the spelling of the sign of a should-total is not constrained; its minutes are (below)
			got, err := jStr(o, "should_total")
			if err != nil {
				return err
			}
			if v, perr := model.ParseDurationValue(strings.TrimSuffix(got, "!")); perr != nil || v != should || (r.Should != nil && should != 0 && !strings.HasSuffix(got, "!")) {
				return fmt.Errorf("should_total = %q, want a spelling of %q", got, shouldStr)
			}
			return nil
		}(),
		wantInt(o, "diff_mins", total-should),
		wantStr(o, "diff", model.CanonDuration(total-should, true, 0)),
		wantTags(o, r.Summary),
	); err != nil {
		return err
	}
	ev, _ := o.Get("entries")
	arr, ok := ev.([]any)
	if !ok || len(arr) != len(r.Entries) {
		return fmt.Errorf("entries: got %d, want %d", len(arr), len(r.Entries))
	}
	sum := 0
	for i, e := range r.Entries {
		eo, ok := arr[i].(*model.JObject)
		if !ok {
			return fmt.Errorf("entry %d is not an object", i)
		}
		sumText := ""
		if e.HasSummary() {
			sumText = strings.Join(model.Strs(e.Summary), "\n")
		}
		if err := firstErr(
			wantStr(eo, "type", e.Kind),
			wantStr(eo, "summary", asJSONText(sumText)),
			wantInt(eo, "total_mins", e.Minutes()),
			wantStr(eo, "total", model.CanonDuration(e.Minutes(), false, 0)),
			wantTags(eo, e.Summary),
		); err != nil {
			return fmt.Errorf("entry %d: %v", i, err)
		}
		tm, _ := jInt(eo, "total_mins")
		sum += tm
		if e.Kind != model.KDuration {
			if err := firstErr(wantStr(eo, "start", model.CanonTime(e.Start.Off, e.Start.Is12h)), wantInt(eo, "start_mins", e.Start.Off)); err != nil {
				return fmt.Errorf("entry %d: %v", i, err)
			}
		} else if v, has := eo.Get("start"); has && v != nil {
			return fmt.Errorf("entry %d: duration with start", i)
		}
		if e.Kind == model.KRange {
			endLit := wantStr(eo, "end", model.CanonTime(e.End.Off, e.End.Is12h))
			if e.End.Lit == "closed-by-now" { // the clock notation of a range closed by --now is not specified
				endLit = firstErr(wantStr(eo, "end", model.CanonTime(e.End.Off, false)))
				if endLit != nil {
					endLit = wantStr(eo, "end", model.CanonTime(e.End.Off, true))
				}
			}
			if err := firstErr(endLit, wantInt(eo, "end_mins", e.End.Off)); err != nil {
				return fmt.Errorf("entry %d: %v", i, err)
			}
			sm, _ := jInt(eo, "start_mins")
			em, _ := jInt(eo, "end_mins")
			if tm != em-sm {
				return fmt.Errorf("entry %d: total_mins %d != end_mins - start_mins", i, tm)
			}
		} else if v, has := eo.Get("end"); has && v != nil {
			return fmt.Errorf("entry %d: %s with end", i, e.Kind)
		}
	}
	tmr, _ := jInt(o, "total_mins")
	if tmr != sum {
		return fmt.Errorf("total_mins %d != sum of entries %d", tmr, sum)
	}
	return nil
}

func checkC20(c caseC20) (Outcome, error) {
	var out Outcome
	text, lines := model.Render(c.Doc, c.Layout)
	valid := len(c.Faults) == 0
	if !valid {
		fl, _, applied := applyFaults(c.Doc, c.Layout, lines, c.Faults)
		if len(applied) == 0 {
			valid = true
		} else {
			text = model.TextOf(fl)
		}
	}
	h := newHarness(envTime(c.Env), "")
	defer h.Close()
	f := h.WriteFile("in.klg", text)
	filter := util.FilterArgs{}
	if c.Since != nil {
		filter.Since = klogDate(*c.Since)
	}
	// the document the JSON must describe: open ranges closed at the clock (--now), then filtered
	want := c.Doc
	if valid && c.Now {
		_, closable, _ := refClose(c.Doc, c.Env.NowDay, c.Env.NowMin())
		if !closable {
			res := h.RunJson([]string{f}, c.Pretty, true, filter, c.Sort)
			if res.Err == nil {
				return out, fmt.Errorf("klog json --now succeeded although an open range cannot be closed at %s\ntext: %s", envString(c.Env), quoteShort(text))
			}
			out.Label("now-refused")
			return out, nil
		}
		want = model.Doc{}
		for _, r := range c.Doc.Records {
			nr := r
			nr.Entries = append([]model.Entry{}, r.Entries...)
			if oi := r.OpenIndex(); oi >= 0 {
				e := nr.Entries[oi]
				e.Kind = model.KRange
				e.End = model.Time{Off: (c.Env.NowDay-r.Date.Days())*1440 + c.Env.NowMin(), Lit: "closed-by-now"}
				e.DashL, e.DashR = " ", " "
				nr.Entries[oi] = e
				out.Label("closed-by-now")
			}
			want.Records = append(want.Records, nr)
		}
	}
	if valid && c.Since != nil {
		filtered := model.Doc{}
		for _, r := range want.Records {
			if r.Date.Days() >= c.Since.Days() {
				filtered.Records = append(filtered.Records, r)
			}
		}
		want = filtered
		out.Label("filtered")
	}
	if valid && c.Type != "" {
		// entries of other types disappear, records without a matching entry disappear, and what
		// remains (date, should-total, summary, the matching entries) is reproduced unchanged
		q := queryC13{Type: c.Type}
		fa, _ := buildFilterArgs(q)
		filter.EntryType = fa.EntryType
		sel, ents, unsure, okSel := refSelect(want, q, c.Env.NowDay, false, false, true)
		if !okSel || unsure {
			out.Label("entry-type-filter-not-decidable")
			return out, nil
		}
		filtered := model.Doc{}
		for ri, r := range want.Records {
			if !sel[ri] {
				continue
			}
			nr := r
			nr.Entries = nil
			for _, ei := range ents[ri] {
				nr.Entries = append(nr.Entries, r.Entries[ei])
			}
			filtered.Records = append(filtered.Records, nr)
		}
		want = filtered
		out.Label("filtered-by-entry-type")
	}
	res := h.RunJson([]string{f}, c.Pretty, valid && c.Now, filter, c.Sort)
	if res.Err != nil {
		return out, fmt.Errorf("klog json failed: %s", res.Err.Error())
	}
	// through klog's real entry point the same document reaches stdout
	if valid && len(text)%4 == 1 && !c.Now {
		args := []string{"json"}
		if c.Pretty {
			args = append(args, "--pretty")
		}
		if c.Sort != "" {
			args = append(args, "--sort", c.Sort)
		}
		if c.Since != nil {
			args = append(args, "--since", c.Since.Lit())
		}
		if c.Type != "" {
			args = append(args, "--entry-type", c.Type)
		}
		code, rerr, realOut := h.RunMain(append(args, f), -1)
		if code != 0 || strings.TrimSpace(realOut) != strings.TrimSpace(res.Out) {
			return out, fmt.Errorf("`klog %s` through klog.Run: exit %d (%v), stdout differs from what the command produced\nstdout: %s\nwant:   %s", strings.Join(args, " "), code, rerr, quoteShort(realOut), quoteShort(res.Out))
		}
		out.Label("via-klog.Run")
	}
	v, err := model.ParseJSON(res.Out)
	if err != nil {
		return out, fmt.Errorf("output is not one well-formed JSON document: %v\n%s", err, quoteShort(res.Out))
	}
	root, ok := v.(*model.JObject)
	if !ok {
		return out, fmt.Errorf("top level is not an object")
	}
	recsV, hasR := root.Get("records")
	errsV, hasE := root.Get("errors")
	if !hasR || !hasE { // further top-level keys are not forbidden by the property
		return out, fmt.Errorf("top level keys are %v", root.Keys)
	}
	if (recsV == nil) == (errsV == nil) {
		return out, fmt.Errorf("exactly one of records/errors must be non-null: %s", quoteShort(res.Out))
	}
	// --pretty and compact must denote the same tree
	res2 := h.RunJson([]string{f}, !c.Pretty, valid && c.Now, filter, c.Sort)
	v2, err2 := model.ParseJSON(res2.Out)
	if res2.Err != nil || err2 != nil || fmt.Sprint(dumpJSON(v2)) != fmt.Sprint(dumpJSON(v)) {
		return out, fmt.Errorf("--pretty changes the document")
	}
	if !valid {
		if errsV == nil {
			// whether klog's parser rejects this text is C01's matter; but if it does, `klog json`
			// must say so
			if _, _, perrs := parser.NewSerialParser().Parse(text); perrs != nil {
				return out, fmt.Errorf("klog's parser reports %d error(s) for this text, but `klog json` shows none (errors is null)\ntext: %s\noutput: %s", len(perrs), quoteShort(text), quoteShort(res.Out))
			}
			out.Label("not-rejected")
			return out, nil
		}
		// The error objects are compared with the terminal report in C10 (checkRenderings); here
		// the structure and consistency with a direct parse are checked.
		arr := errsV.([]any)
		out.Label("invalid-input")
		out.NonTrivial = len(arr) >= 2
		return out, checkJSONErrorsAgainstParse(text, f, arr)
	}
	if errsV != nil {
		out.Label("rejected-by-parser")
		return out, nil
	}
	arr, ok := recsV.([]any)
	if !ok {
		return out, fmt.Errorf("records is not an array")
	}
	// expected order
	idx := make([]int, len(want.Records))
	for i := range idx {
		idx[i] = i
	}
	if len(arr) != len(idx) {
		return out, fmt.Errorf("%d record objects for %d records", len(arr), len(idx))
	}
	if c.Sort != "" {
		// sorted by date; the order among equal dates is not specified: match greedily
		asc := strings.ToLower(c.Sort) == "asc"
		prev := 0
		used := map[int]bool{}
		for i, x := range arr {
			o, ok := x.(*model.JObject)
			if !ok {
				return out, fmt.Errorf("record %d is not an object", i)
			}
			ds, _ := jStr(o, "date")
			dd, okd := model.ScanDate(ds)
			if !okd {
				return out, fmt.Errorf("record %d has date %q", i, ds)
			}
			if i > 0 && ((asc && dd.Days() < prev) || (!asc && dd.Days() > prev)) {
				return out, fmt.Errorf("--sort %s: record %d (%s) is out of order", c.Sort, i, ds)
			}
			prev = dd.Days()
			matched := false
			var lastErr error
			for k, r := range want.Records {
				if used[k] || r.Date.Days() != dd.Days() {
					continue
				}
				if e := checkRecordJSON(o, r); e == nil {
					used[k] = true
					matched = true
					break
				} else {
					lastErr = e
				}
			}
			if !matched {
				return out, fmt.Errorf("--sort %s: record object %d (%s) matches no unused record of that date: %v", c.Sort, i, ds, lastErr)
			}
		}
		out.Label("sorted")
	} else {
		for i, x := range arr {
			o, ok := x.(*model.JObject)
			if !ok {
				return out, fmt.Errorf("record %d is not an object", i)
			}
			if e := checkRecordJSON(o, want.Records[i]); e != nil {
				return out, fmt.Errorf("record %d: %v\ntext: %s\njson: %s", i, e, quoteShort(text), quoteShort(res.Out))
			}
		}
	}
	needsEscape := false
	for _, r := range want.Records {
		all := append([]model.Text{}, r.Summary...)
		for _, e := range r.Entries {
			all = append(all, e.Summary...)
		}
		for _, s := range all {
			for _, ch := range string(s) {
				if ch == '"' || ch == '\\' || ch < 0x20 || ch > 0x7e {
					needsEscape = true
				}
			}
		}
	}
	out.NonTrivial = needsEscape
	return out, nil
}

// dumpJSON gives a canonical printable form of a parsed JSON tree.
func dumpJSON(v any) any {
	switch x := v.(type) {
	case *model.JObject:
		var parts []string
		for _, k := range x.Keys {
			parts = append(parts, fmt.Sprintf("%q:%v", k, dumpJSON(x.Vals[k])))
		}
		return "{" + strings.Join(parts, ",") + "}"
	case []any:
		var parts []string
		for _, e := range x {
			parts = append(parts, fmt.Sprint(dumpJSON(e)))
		}
		return "[" + strings.Join(parts, ",") + "]"
	case string:
		return fmt.Sprintf("%q", x)
	}
	return fmt.Sprint(v)
}

func TestC20(t *testing.T) {
	Run(t, Prop[caseC20]{ID: "C20", Gen: genC20, Check: checkC20})
}
