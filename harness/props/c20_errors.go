package props

import (
	"fmt"

	"github.com/jotaen/klog/klog/parser"
	"verifharness/model"
)

// checkJSONErrorsAgainstParse compares the error objects of `klog json` with the error list
// of a direct parse of the same text (line, column, length, title, details).
func checkJSONErrorsAgainstParse(text, file string, arr []any) error {
	_, _, errs := parser.NewSerialParser().Parse(text)
	if len(errs) != len(arr) {
		return fmt.Errorf("JSON has %d errors, the parser reports %d", len(arr), len(errs))
	}
	for i, e := range errs {
		o, ok := arr[i].(*model.JObject)
		if !ok {
			return fmt.Errorf("error %d is not an object", i)
		}
		// line, column (the terminal report puts its first caret at Position(), i.e. column Position()+1),
		// length and message as the error list (and thereby the terminal report, C10)
		// has them; further keys (`file`, future ones) are not constrained by the property
		if err := firstErr(
			wantInt(o, "line", e.LineNumber()), wantInt(o, "column", e.Position()+1), wantInt(o, "length", e.Length()),
			wantStr(o, "title", e.Title()), wantStr(o, "details", e.Details()),
		); err != nil {
			return fmt.Errorf("error %d: %v", i, err)
		}
	}
	return nil
}
