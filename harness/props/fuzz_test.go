package props

import (
	"fmt"
	"os"
	"testing"

	"github.com/jotaen/klog/klog"
	"github.com/jotaen/klog/klog/app"
	"github.com/jotaen/klog/klog/app/cli/util"
	"github.com/jotaen/klog/klog/parser"
	"github.com/jotaen/klog/klog/parser/reconciling"
	"verifharness/evid"
	"verifharness/model"
)

// Native coverage-guided fuzz targets (thorough tier). Every target carries the semantic
// oracle of its property; a failing input is saved as a replayable case file.

var fuzzSeeds = []string{
	"", "\n", "2020-01-01", "2020-01-01\n\t1h\n", "2020-01-01 (8h!)\nsummary #tag\n    8:00 - 9:00 foo\n        more\n    <23:00 - 1:00> bar\n    -30m\n    9:00 - ?\n",
	"2020/01/01\r\n  1h\r\n\r\n2020/01/02\r\n  2h\r\n", "1999-12-31\n\t23:00 - 24:00\n\n2000-01-01\n\t<24:00-0:01\n", "2020-01-01\n    12:00am - 12:00pm #a=\"b c\"\n",
	"2020-01-01\n\t1h foo\xff", "\xff", "2020-01-01\n\t153722867280912930h\n", "2020-01-01\n    1h\n         ", "2020-01-01\n  1h\n\n2020-01-02\n\t1h\n", "  \n2020-01-01\n\t1h\n",
	"2020-01-01\n\t1h\nüü", "2020-01-01\r\n\r\n2020-01-02\r\n\r\n\r\n2020-01-03\r\n\t1h 123456789\r\n", "2020-01-01\n\t1h foo � bar\n", "2020-01-01 (!)", "2020-13-01\n", "Hello\n", "2020-01-01\n\t8:00 - ?\n\t9:00 - ?\n",
	"2020-01-01\n\t1h\n\n\n\t2h\n", "0000-01-01\n\t0m\n", "9999-12-31\n\t0:30> - ?\n", "0000-01-01\n\t<23:00 - <23:30\n", "9999-12-31\n\t23:00 - 0:30>\n\n9999-12-30\n\t1:00> - ?\n", "9999-12-31\n\t24:00 - 24:00\n", "2020-01-01\nfoo\r\r\n", "2020-01-01\n\t1h\x00\x1b[31m\n",
}

func fuzzFail(t *testing.T, id string, c any, err error) {
	os.Setenv("VERIF_SHARD", "900")
	evid.WriteFailure(id, c, err.Error())
	t.Fatalf("%v", err)
}

func FuzzC01(f *testing.F) {
	for _, s := range fuzzSeeds {
		f.Add([]byte(s))
	}
	f.Fuzz(func(t *testing.T, data []byte) {
		mt := model.Text(data)
		c := caseC01{Text: &mt}
		if _, err := safeCheck(checkC01, c); err != nil {
			fuzzFail(t, "C01", c, err)
		}
	})
}

func FuzzC06(f *testing.F) {
	for _, s := range fuzzSeeds {
		f.Add([]byte(s))
	}
	f.Fuzz(func(t *testing.T, data []byte) {
		c := caseC06{Text: model.Text(data)}
		if _, err := safeCheck(checkC06Direct, c); err != nil {
			fuzzFail(t, "C06", c, err)
		}
	})
}

func FuzzC07(f *testing.F) {
	for i, s := range fuzzSeeds {
		f.Add([]byte(s), uint8(2+i%7), uint16(i))
	}
	f.Fuzz(func(t *testing.T, data []byte, n uint8, perm uint16) {
		if len(data) > 4096 || hasUnrepresentableDuration(string(data)) {
			return
		}
		c := caseC07{Text: model.Text(data), Workers: []int{int(n%48) + 1, 2}, Perm: int(perm)}
		if _, err := safeCheck(checkC07, c); err != nil {
			fuzzFail(t, "C07", c, err)
		}
	})
}

// checkC08Text is C08's oracle for an arbitrary text (no AST): only texts the parser accepts.
func checkC08Text(c caseC08Text) (Outcome, error) {
	var out Outcome
	text := string(c.Text)
	if hasUnrepresentableDuration(text) {
		return out, nil
	}
	for _, e := range []struct {
		name string
		p    parser.Parser
	}{{"serial", parser.NewSerialParser()}, {"parallel", parser.NewParallelParser(int(c.Workers%16) + 2)}} {
		records, blocks, errs := e.p.Parse(text)
		if errs != nil {
			return out, nil
		}
		own := model.SplitLines(text)
		hasSig := false
		for _, l := range own {
			if !model.IsBlankST(l.Text) {
				hasSig = true
			}
		}
		if (len(blocks) == 0) == hasSig {
			return out, fmt.Errorf("%s: %d blocks, text has significant lines: %v", e.name, len(blocks), hasSig)
		}
		if !hasSig {
			continue
		}
		if err := checkBlocks(text, nil, len(blocks), blocks, records, e.name); err != nil {
			return out, err
		}
		seen := map[string]bool{}
		for _, r := range records {
			if seen[r.Date().ToString()] {
				continue
			}
			seen[r.Date().ToString()] = true
			res, aerr := app.ApplyReconciler(records, blocks, []reconciling.Creator{reconciling.NewReconcilerAtRecord(r.Date())})
			if aerr != nil || res.AllSerialised != text {
				return out, fmt.Errorf("%s: no-op reconcile at %s does not reproduce the text", e.name, r.Date().ToString())
			}
		}
	}
	out.NonTrivial = true
	return out, nil
}

type caseC08Text struct {
	Text    model.Text
	Workers uint8
}

func FuzzC08(f *testing.F) {
	for i, s := range fuzzSeeds {
		f.Add([]byte(s), uint8(i))
	}
	f.Fuzz(func(t *testing.T, data []byte, n uint8) {
		c := caseC08Text{Text: model.Text(data), Workers: n}
		if _, err := safeCheck(checkC08Text, c); err != nil {
			fuzzFail(t, "C08", c, err)
		}
	})
}

type caseText struct {
	Text model.Text
	N    uint8
}

// checkC10Text: generic error-position invariants and renderings for any rejected text.
func checkC10Text(c caseText) (Outcome, error) {
	var out Outcome
	text := string(c.Text)
	if hasUnrepresentableDuration(text) {
		return out, nil
	}
	_, _, errs := parser.NewSerialParser().Parse(text)
	if errs == nil {
		return out, nil
	}
	if err := checkErrorList(text, errs); err != nil {
		return out, err
	}
	_, _, perrs := parser.NewParallelParser(int(c.N%16) + 2).Parse(text)
	if fmt.Sprint(tuples(perrs)) != fmt.Sprint(tuples(errs)) {
		return out, fmt.Errorf("parallel engine reports different errors: %v vs %v", tuples(perrs), tuples(errs))
	}
	h := newInlineHarness(goTime(model.DaysFromCivil(2024, 5, 5), 600), text, 1, "no_colour")
	jres := h.RunJson(nil, c.N%2 == 0, false, util.FilterArgs{}, "")
	if jres.Err != nil {
		return out, fmt.Errorf("klog json failed: %v", jres.Err)
	}
	if err := checkRenderings(errs, jres.Out); err != nil {
		return out, err
	}
	out.NonTrivial = true
	return out, nil
}

func FuzzC10(f *testing.F) {
	for i, s := range fuzzSeeds {
		f.Add([]byte(s), uint8(i))
	}
	f.Fuzz(func(t *testing.T, data []byte, n uint8) {
		c := caseText{Text: model.Text(data), N: n}
		if _, err := safeCheck(checkC10Text, c); err != nil {
			fuzzFail(t, "C10", c, err)
		}
	})
}

// checkC20Text: JSON well-formedness and consistency with a direct parse for any text.
func checkC20Text(c caseText) (Outcome, error) {
	var out Outcome
	text := string(c.Text)
	if hasUnrepresentableDuration(text) {
		return out, nil
	}
	records, _, errs := parser.NewSerialParser().Parse(text)
	if errs == nil {
		var sum uint64
		for _, r := range records {
			sum += absInt(r.ShouldTotal().InMinutes())
			for _, e := range r.Entries() {
				sum += absInt(e.Duration().InMinutes())
			}
		}
		if sum >= 1<<62 {
			return out, nil // known finding F3
		}
	}
	h := newInlineHarness(goTime(model.DaysFromCivil(2024, 5, 5), 600), text, 1, "no_colour")
	res := h.RunJson(nil, c.N%2 == 1, false, util.FilterArgs{}, "")
	if res.Err != nil {
		return out, fmt.Errorf("klog json failed: %v", res.Err)
	}
	v, err := model.ParseJSON(res.Out)
	if err != nil {
		return out, fmt.Errorf("not well-formed JSON: %v\n%s", err, quoteShort(res.Out))
	}
	root, ok := v.(*model.JObject)
	if !ok {
		return out, fmt.Errorf("unexpected top level")
	}
	rv, _ := root.Get("records")
	ev, _ := root.Get("errors")
	if (rv == nil) == (ev == nil) {
		return out, fmt.Errorf("exactly one of records/errors must be non-null")
	}
	if (errs == nil) != (ev == nil) {
		return out, fmt.Errorf("JSON and parser disagree on validity")
	}
	if errs != nil {
		return out, checkJSONErrorsAgainstParse(text, "", ev.([]any))
	}
	arr, ok := rv.([]any)
	if !ok || len(arr) != len(records) {
		return out, fmt.Errorf("%d record objects for %d records", len(arr), len(records))
	}
	for i, x := range arr {
		o, ok := x.(*model.JObject)
		if !ok {
			return out, fmt.Errorf("record %d is not an object", i)
		}
		r := records[i]
		total := 0
		for _, e := range r.Entries() {
			total += e.Duration().InMinutes()
		}
		if err := firstErr(wantStr(o, "date", r.Date().ToString()), wantInt(o, "total_mins", total), wantInt(o, "should_total_mins", r.ShouldTotal().InMinutes()),
			wantInt(o, "diff_mins", total-r.ShouldTotal().InMinutes())); err != nil {
			return out, fmt.Errorf("record %d: %v", i, err)
		}
		es, _ := o.Get("entries")
		ea, ok := es.([]any)
		if !ok || len(ea) != len(r.Entries()) {
			return out, fmt.Errorf("record %d: entries mismatch", i)
		}
		for j, e := range r.Entries() {
			eo, ok := ea[j].(*model.JObject)
			if !ok {
				return out, fmt.Errorf("entry is not an object")
			}
			kind, a, b := entryValue(&e)
			if err := firstErr(wantStr(eo, "type", kind), wantInt(eo, "total_mins", e.Duration().InMinutes())); err != nil {
				return out, fmt.Errorf("record %d entry %d: %v", i, j, err)
			}
			if kind != model.KDuration {
				if err := wantInt(eo, "start_mins", a); err != nil {
					return out, err
				}
			}
			if kind == model.KRange {
				if err := wantInt(eo, "end_mins", b); err != nil {
					return out, err
				}
			}
		}
	}
	out.NonTrivial = true
	return out, nil
}

func FuzzC20(f *testing.F) {
	for i, s := range fuzzSeeds {
		f.Add([]byte(s), uint8(i))
	}
	f.Fuzz(func(t *testing.T, data []byte, n uint8) {
		c := caseText{Text: model.Text(data), N: n}
		if _, err := safeCheck(checkC20Text, c); err != nil {
			fuzzFail(t, "C20", c, err)
		}
	})
}

var _ = klog.NewDate
