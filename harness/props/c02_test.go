package props

import (
	"fmt"
	"strconv"
	"strings"
	"testing"
	gotime "time"

	"github.com/jotaen/klog/klog/parser"
	"github.com/jotaen/klog/klog/service"
	"pgregory.net/rapid"
	"verifharness/evid"
	"verifharness/gen"
	"verifharness/model"
)

// C02 — total, should-total and diff follow the specification's evaluation rules.

type caseC02 struct {
	Doc      model.Doc
	Layout   model.Layout
	NowDay   int  // day number of the clock
	NowMin   int  // minute of the day of the clock
	CloseNow bool // evaluate with open ranges closed at the clock instant
	Split    int  // split the records over two input files after this many records
}

func genC02(t *rapid.T, _ *evid.Rec) caseC02 {
	c := caseC02{}
	c.NowDay = rapid.IntRange(model.DaysFromCivil(2000, 1, 1), model.DaysFromCivil(2030, 1, 1)).Draw(t, "nowDay")
	c.NowMin = rapid.IntRange(0, 1439).Draw(t, "nowMin")
	o := gen.Opts{} // summaries incl. entry look-alikes (`1h 30m …`), tags, Unicode
	if rapid.Bool().Draw(t, "nearNow") {
		o.NearDay = c.NowDay
		o.NearSpan = 2
	}
	c.Doc = gen.Doc(t, o)
	c.Layout = gen.Layout(t, len(c.Doc.Records))
	c.CloseNow = rapid.Bool().Draw(t, "closeNow")
	if c.CloseNow && rapid.IntRange(0, 3).Draw(t, "makeClosable") != 0 {
		// Move every record with an open range to today or yesterday and start it before now.
		for i := range c.Doc.Records {
			r := &c.Doc.Records[i]
			oi := r.OpenIndex()
			if oi < 0 {
				continue
			}
			delta := rapid.IntRange(0, 1).Draw(t, "openDelta")
			r.Date = model.DateOfDays(c.NowDay-delta, r.Date.Slash)
			hi := delta*1440 + c.NowMin
			if rapid.IntRange(0, 9).Draw(t, "startAfterNow") == 0 && hi < 2879 {
				r.Entries[oi].Start = gen.TimeLit(t, rapid.IntRange(hi+1, 2879).Draw(t, "lateStart"), "lateStartLit")
			} else {
				r.Entries[oi].Start = gen.TimeLit(t, gen.Off(t, -1440, hi, "openStart"), "openStartLit")
			}
		}
	}
	c.Split = rapid.IntRange(0, len(c.Doc.Records)).Draw(t, "split")
	return c
}

// refClose is the reference evaluation of "closed at the current time": (extra minutes, closable).
func refClose(d model.Doc, nowDay, nowMin int) (int, bool, int) {
	extra, n := 0, 0
	for _, r := range d.Records {
		oi := r.OpenIndex()
		if oi < 0 {
			continue
		}
		n++
		delta := nowDay - r.Date.Days()
		if delta != 0 && delta != 1 {
			return 0, false, n
		}
		end := delta*1440 + nowMin
		start := r.Entries[oi].Start.Off
		if end < start {
			return 0, false, n
		}
		extra += end - start
	}
	return extra, true, n
}

func parseMinutes(s string) (int, error) {
	return strconv.Atoi(strings.TrimSpace(s))
}

func goTime(day, min int) gotime.Time {
	y, m, d := model.CivilFromDays(day)
	return gotime.Date(y, gotime.Month(m), d, min/60, min%60, 17, 0, gotime.UTC)
}

func checkC02(c caseC02) (Outcome, error) {
	var out Outcome
	text, _ := model.Render(c.Doc, c.Layout)
	records, _, errs := parser.NewSerialParser().Parse(text)
	if errs != nil {
		out.Label("rejected-by-parser")
		return out, nil
	}
	wantTotal, wantShould := 0, 0
	for _, r := range c.Doc.Records {
		wantTotal += r.Total()
		wantShould += r.ShouldMins()
	}
	// (i) service level, without closing
	if got := service.Total(records...).InMinutes(); got != wantTotal {
		return out, fmt.Errorf("service.Total = %d, reference %d\ntext: %s", got, wantTotal, quoteShort(text))
	}
	if got := service.ShouldTotalSum(records...).InMinutes(); got != wantShould {
		return out, fmt.Errorf("service.ShouldTotalSum = %d, reference %d", got, wantShould)
	}
	if got := service.Diff(service.ShouldTotalSum(records...), service.Total(records...)).InMinutes(); got != wantTotal-wantShould {
		return out, fmt.Errorf("service.Diff = %d, reference %d", got, wantTotal-wantShould)
	}
	for i, r := range records {
		if got := service.Total(r).InMinutes(); got != c.Doc.Records[i].Total() {
			return out, fmt.Errorf("record %d total = %d, reference %d", i, got, c.Doc.Records[i].Total())
		}
		for j, e := range r.Entries() {
			if got := e.Duration().InMinutes(); got != c.Doc.Records[i].Entries[j].Minutes() {
				return out, fmt.Errorf("record %d entry %d = %d min, reference %d", i, j, got, c.Doc.Records[i].Entries[j].Minutes())
			}
		}
	}
	// metamorphic: duplicating every record doubles the total (records stay separate)
	dup := append(append(records[:0:0], records...), records...)
	if got := service.Total(dup...).InMinutes(); got != 2*wantTotal {
		return out, fmt.Errorf("total of duplicated records = %d, want %d", got, 2*wantTotal)
	}

	// (ii) CLI level: klog total --diff [--now], h/m and decimal notation, one or two input files
	extra, closable, nOpen := refClose(c.Doc, c.NowDay, c.NowMin)
	h := newHarness(goTime(c.NowDay, c.NowMin), "")
	defer h.Close()
	var files []string
	if c.Split > 0 && c.Split < len(c.Doc.Records) {
		d1 := model.Doc{Records: c.Doc.Records[:c.Split]}
		d2 := model.Doc{Records: c.Doc.Records[c.Split:]}
		t1, _ := model.Render(d1, c.Layout)
		t2, _ := model.Render(d2, c.Layout)
		files = []string{h.WriteFile("a.klg", t1), h.WriteFile("b.klg", t2)}
		out.Label("two-input-files")
	} else {
		files = []string{h.WriteFile("a.klg", text)}
	}
	for _, decimal := range []bool{false, true} {
		res := h.RunTotal(files, true, c.CloseNow, decimal)
		if c.CloseNow && !closable {
			if res.Err == nil {
				return out, fmt.Errorf("total --now succeeded although an open range cannot be closed at %s %d:%02d\ntext: %s", model.DateOfDays(c.NowDay, false).Lit(), c.NowMin/60, c.NowMin%60, quoteShort(text))
			}
			out.Label("uncloseable")
			continue
		}
		if res.Err != nil {
			return out, fmt.Errorf("klog total failed: %s: %s\ntext: %s", res.Err.Error(), res.Err.Details(), quoteShort(text))
		}
		want := wantTotal
		if c.CloseNow {
			want += extra
		}
		vals, perr := parseTotalOutput(res.Out, decimal)
		if perr != nil {
			return out, fmt.Errorf("cannot read output of klog total: %v\n%s", perr, res.Out)
		}
		if vals["Total"] != want || vals["Should"] != wantShould || vals["Diff"] != want-wantShould {
			return out, fmt.Errorf("klog total (decimal=%v, now=%v) printed total=%d should=%d diff=%d; reference %d/%d/%d\ntext: %s",
				decimal, c.CloseNow, vals["Total"], vals["Should"], vals["Diff"], want, wantShould, want-wantShould, quoteShort(text))
		}
		if vals["Records"] != len(c.Doc.Records) {
			return out, fmt.Errorf("klog total counted %d records, want %d", vals["Records"], len(c.Doc.Records))
		}
	}
	if c.CloseNow && closable && nOpen > 0 {
		out.Label("closed-open-range")
	}
	interesting := false
	nEntries := 0
	for _, r := range c.Doc.Records {
		for _, e := range r.Entries {
			nEntries++
			if e.Kind == model.KDuration && e.Dur.Mins < 0 {
				interesting = true
			}
			if e.Kind == model.KRange && (e.Start.Shift() != 0 || e.End.Shift() != 0) {
				interesting = true
			}
		}
	}
	out.NonTrivial = nEntries >= 2 && interesting
	return out, nil
}

// parseTotalOutput reads the lines `Total: …`, `Should: …!`, `Diff: …`, `(In N records)`.
func parseTotalOutput(s string, decimal bool) (map[string]int, error) {
	vals := map[string]int{}
	for _, line := range strings.Split(s, "\n") {
		for _, key := range []string{"Total", "Should", "Diff"} {
			if strings.HasPrefix(line, key+": ") {
				v := strings.TrimSuffix(strings.TrimPrefix(line, key+": "), "!")
				var n int
				var err error
				if decimal {
					n, err = strconv.Atoi(v)
				} else {
					n, err = model.ParseDurationValue(v)
				}
				if err != nil {
					return nil, fmt.Errorf("line %q: %v", line, err)
				}
				vals[key] = n
			}
		}
		if strings.HasPrefix(line, "(In ") {
			f := strings.Fields(line)
			n, err := strconv.Atoi(f[1])
			if err != nil {
				return nil, err
			}
			vals["Records"] = n
		}
	}
	if len(vals) != 4 {
		return nil, fmt.Errorf("expected Total/Should/Diff/count lines")
	}
	return vals, nil
}

func TestC02(t *testing.T) {
	Run(t, Prop[caseC02]{ID: "C02", Gen: genC02, Check: checkC02})
}
