package props

import (
	"fmt"
	"strings"
	"testing"
	"unicode/utf8"

	"github.com/jotaen/klog/klog/app"
	tf "github.com/jotaen/klog/klog/app/cli/terminalformat"
	"github.com/jotaen/klog/klog/app/cli/util"
	"github.com/jotaen/klog/klog/parser/txt"
	"pgregory.net/rapid"
	"verifharness/evid"
	"verifharness/gen"
	"verifharness/model"
)

// C10 — syntax errors are reported at the right place and can always be displayed.

type caseC10 struct {
	Doc     model.Doc
	Layout  model.Layout
	Faults  []model.Fault
	Workers int
}

func genC10(t *rapid.T, _ *evid.Rec) caseC10 {
	d := gen.Doc(t, gen.Opts{AllowMany: true, Controls: true})
	c := caseC10{Doc: d, Layout: gen.Layout(t, len(d.Records))}
	c.Faults = genFaults(t, 3)
	c.Workers = rapid.IntRange(2, 12).Draw(t, "workers")
	return c
}

type errTuple struct {
	Line, Pos, Len  int
	Code, Text, Msg string
}

func tuples(errs []txt.Error) []errTuple {
	var out []errTuple
	for _, e := range errs {
		out = append(out, errTuple{e.LineNumber(), e.Position(), e.Length(), e.Code(), e.LineText(), e.Message()})
	}
	return out
}

// checkErrorList verifies the generic position invariants of an error list against the text.
func checkErrorList(text string, errs []txt.Error) error {
	own := model.SplitLines(text)
	prev := 0
	for i, e := range errs {
		n := e.LineNumber()
		if n < 1 || n > len(own) {
			return fmt.Errorf("error %d names line %d, but the text has %d lines", i, n, len(own))
		}
		if n < prev {
			return fmt.Errorf("error %d is on line %d after an error on line %d (not ascending)", i, n, prev)
		}
		prev = n
		lt := e.LineText()
		if lt != own[n-1].Text {
			return fmt.Errorf("error %d (line %d) quotes %q, but that line is %q", i, n, lt, own[n-1].Text)
		}
		runes := utf8.RuneCountInString(lt)
		if e.Position() < 0 || e.Length() < 0 || e.Position() > runes || e.Position()+e.Length() > runes+1 {
			return fmt.Errorf("error %d (line %d, %s): position %d + length %d exceeds the line (%d characters): %q", i, n, e.Code(), e.Position(), e.Length(), runes, lt)
		}
		if e.Column() < 1 || e.Column()+e.Length() > runes+2 {
			return fmt.Errorf("error %d (line %d): column %d + length %d exceeds the line (%d characters)", i, n, e.Column(), e.Length(), runes)
		}
	}
	return nil
}

// checkRenderings verifies the terminal and the JSON rendering of the errors.
func checkRenderings(errs []txt.Error, jsonOut string) error {
	// Terminal report: read tolerantly (wording and framing are presentation). For every error, in
	// order: a line that names "line <N>", later a line that quotes the faulty line (tabs shown as
	// blanks), and — if a line of blanks and carets follows — exactly Length carets starting
	// Position characters after the start of the quoted text.
	plain := util.PrettifyParsingError(app.NewParserErrors(errs), tf.NewStyler(tf.COLOUR_THEME_NO_COLOUR)).Error()
	if err := readTerminalReport(plain, errs); err != nil {
		return fmt.Errorf("%v\nreport: %s", err, quoteShort(plain))
	}
	for _, theme := range []tf.ColourTheme{tf.COLOUR_THEME_DARK, tf.COLOUR_THEME_LIGHT, tf.COLOUR_THEME_BASIC} {
		styled := util.PrettifyParsingError(app.NewParserErrors(errs), tf.NewStyler(theme)).Error()
		if err := readTerminalReportX(stripSGR(styled), errs, true); err != nil { // (equality modulo SGR is C18's statement)
			return fmt.Errorf("theme %s: %v\nreport: %s", theme, err, quoteShort(styled))
		}
	}
	// JSON report.
	v, err := model.ParseJSON(jsonOut)
	if err != nil {
		return fmt.Errorf("JSON error report is not well-formed: %v\n%s", err, quoteShort(jsonOut))
	}
	root, ok := v.(*model.JObject)
	if !ok {
		return fmt.Errorf("JSON error report is not an object")
	}
	if recs, _ := root.Get("records"); recs != nil {
		return fmt.Errorf("JSON error report has non-null records")
	}
	arrV, _ := root.Get("errors")
	arr, ok := arrV.([]any)
	if !ok || len(arr) != len(errs) {
		return fmt.Errorf("JSON error report has %d errors, want %d", len(arr), len(errs))
	}
	for i, e := range errs {
		o, ok := arr[i].(*model.JObject)
		if !ok {
			return fmt.Errorf("JSON error %d is not an object", i)
		}
		num := func(k string) int {
			x, _ := o.Get(k)
			n, _ := x.(model.JNumber)
			v, err := n.Int()
			if err != nil {
				return -1 << 30
			}
			return v
		}
		str := func(k string) string { x, _ := o.Get(k); s, _ := x.(string); return s }
		if num("line") != e.LineNumber() || num("column") != e.Position()+1 || num("length") != e.Length() ||
			str("title") != e.Title() || str("details") != e.Details() {
			return fmt.Errorf("JSON error %d is line=%d column=%d length=%d title=%q; terminal report has line=%d column=%d length=%d title=%q",
				i, num("line"), num("column"), num("length"), str("title"), e.LineNumber(), e.Position()+1, e.Length(), e.Title())
		}
	}
	return nil
}

func readTerminalReport(report string, errs []txt.Error) error {
	return readTerminalReportX(report, errs, false)
}

// readTerminalReportX: sgrStripped says that SGR sequences were removed from report (a themed
// report); sequences inside the quoted file line are gone then as well.
func readTerminalReportX(report string, errs []txt.Error, sgrStripped bool) error {
	lines := strings.Split(report, "\n")
	li := 0
	for i, e := range errs {
		marker := fmt.Sprintf("line %d", e.LineNumber())
		for li < len(lines) && !containsWord(lines[li], marker) {
			li++
		}
		if li >= len(lines) {
			return fmt.Errorf("terminal report does not name line %d for error %d", e.LineNumber(), i)
		}
		// the quoted line: tabs shown as blanks; control characters may be shown by a substitute
		variants := [][]rune{[]rune(strings.ReplaceAll(e.LineText(), "\t", " "))}
		if sgrStripped { // an SGR sequence inside the file line went away with the theme's own
			variants = append(variants, []rune(strings.ReplaceAll(stripSGR(e.LineText()), "\t", " ")))
		}
		qi := li + 1
		col := -1
		for qi < len(lines) && col < 0 {
			for _, quoted := range variants {
				if k := indexQuoted([]rune(lines[qi]), quoted); k >= 0 && (strings.TrimSpace(string(quoted)) != "" || strings.TrimSpace(lines[qi]) == "") {
					col = k
					break
				}
			}
			if col < 0 {
				qi++
			}
		}
		if col < 0 {
			return fmt.Errorf("terminal report does not quote the faulty line %q of error %d", e.LineText(), i)
		}
		li = qi
		if qi+1 < len(lines) {
			cl := lines[qi+1]
			if strings.Trim(cl, " ^") == "" && strings.Contains(cl, "^") {
				carets := strings.Count(cl, "^")
				first := strings.Index(cl, "^")
				if (carets != e.Length() && !(e.Length() == 0 && carets == 1)) || first-col != e.Position() {
					return fmt.Errorf("terminal report marks %d characters from column %d of line %d; the error has position %d and length %d", carets, first-col, e.LineNumber(), e.Position(), e.Length())
				}
				li = qi + 1
			} else if e.Length() > 0 && strings.Trim(cl, " ^") == "" {
				return fmt.Errorf("terminal report has no caret line for error %d (length %d)", i, e.Length())
			}
		}
	}
	return nil
}

// indexQuoted finds quoted in line (rune offsets), where a control character of quoted may appear as
// any single character (a report may sanitise what it echoes from the file). The report prints a
// margin and then the whole line, so the occurrence that ends the report line is preferred; failing
// that, the first exact occurrence; failing that, the last occurrence modulo control characters.
// -1 if absent.
func indexQuoted(line, quoted []rune) int {
	matchAt := func(k int, wild bool) bool {
		if k < 0 || k+len(quoted) > len(line) {
			return false
		}
		for j, q := range quoted {
			if line[k+j] != q && !(wild && (q < 0x20 || q == 0x7f || (q >= 0x80 && q < 0xa0))) {
				return false
			}
		}
		return true
	}
	if k := len(line) - len(quoted); matchAt(k, true) {
		return k
	}
	for k := 0; k+len(quoted) <= len(line); k++ {
		if matchAt(k, false) {
			return k
		}
	}
	for k := len(line) - len(quoted); k >= 0; k-- {
		if matchAt(k, true) {
			return k
		}
	}
	return -1
}

// containsWord: marker occurs and is not directly followed by a digit (so "line 1" does not match "line 12").
func containsWord(s, marker string) bool {
	for from := 0; ; {
		k := strings.Index(s[from:], marker)
		if k < 0 {
			return false
		}
		end := from + k + len(marker)
		if end >= len(s) || s[end] < '0' || s[end] > '9' {
			return true
		}
		from = end
	}
}

// stripSGR removes `ESC [ digits/semicolons m` sequences with a hand-written scanner.
func stripSGR(s string) string {
	var sb strings.Builder
	for i := 0; i < len(s); {
		if s[i] == 0x1b && i+1 < len(s) && s[i+1] == '[' {
			j := i + 2
			for j < len(s) && (s[j] == ';' || (s[j] >= '0' && s[j] <= '9')) {
				j++
			}
			if j < len(s) && s[j] == 'm' && j > i+2 {
				i = j + 1
				continue
			}
		}
		sb.WriteByte(s[i])
		i++
	}
	return sb.String()
}

func checkC10(c caseC10) (Outcome, error) {
	var out Outcome
	_, lines := model.Render(c.Doc, c.Layout)
	flines, manifest, applied := applyFaults(c.Doc, c.Layout, lines, c.Faults)
	if len(applied) == 0 {
		out.Label("fault-not-applicable")
		return out, nil
	}
	ftext := model.TextOf(flines)
	for _, cpus := range []int{1, c.Workers} {
		h := newHarnessEnv(goTime(model.DaysFromCivil(2024, 5, 5), 600), "", nil, cpus)
		f := h.WriteFile("in.klg", ftext)
		res := h.RunPrint([]string{f}, false, true, util.FilterArgs{}, "")
		if res.Err == nil {
			h.Close()
			out.Label("not-rejected") // a C01 matter
			return out, nil
		}
		pe, ok := res.Err.(app.ParserErrors)
		if !ok {
			h.Close()
			return out, fmt.Errorf("klog print failed with a non-syntax error: %s", res.Err.Error())
		}
		errs := pe.All()
		if len(errs) == 0 {
			h.Close()
			return out, fmt.Errorf("syntax error report without errors")
		}
		if res.Err.Code().ToInt() == 0 {
			h.Close()
			return out, fmt.Errorf("syntax errors with exit status 0")
		}
		if err := checkErrorList(ftext, errs); err != nil {
			h.Close()
			return out, fmt.Errorf("cpus=%d: %v\ntext: %s", cpus, err, quoteShort(ftext))
		}
		if len(applied) == 1 && errs[0].LineNumber() != manifest+1 {
			h.Close()
			return out, fmt.Errorf("cpus=%d: fault %s on line %d, but the first error is reported on line %d (%s)\ntext: %s", cpus, applied[0], manifest+1, errs[0].LineNumber(), errs[0].Code(), quoteShort(ftext))
		}
		jres := h.RunJson([]string{f}, cpus%2 == 0, false, util.FilterArgs{}, "")
		if jres.Err != nil && strings.TrimSpace(jres.Out) == "" { // (its exit status is not C10's matter)
			h.Close()
			return out, fmt.Errorf("klog json printed no report for invalid input: %s", jres.Err.Error())
		}
		if err := checkRenderings(errs, jres.Out); err != nil {
			h.Close()
			return out, fmt.Errorf("cpus=%d: %v\ntext: %s", cpus, err, quoteShort(ftext))
		}
		// (that both engines report the same list is C07's statement; here each list is checked)
		h.Close()
	}
	if len(applied) == 1 {
		out.Label("single-fault")
		out.Label("fault:" + applied[0])
		last := manifest == len(flines)-1
		notFirstRecord := manifest < len(flines) && flines[manifest].Rec > 0
		out.NonTrivial = manifest+1 >= 4 || notFirstRecord || last
		if last {
			out.Label("fault-on-last-line")
		}
	} else {
		out.Label("multi-fault")
		out.NonTrivial = true
	}
	return out, nil
}

func TestC10(t *testing.T) {
	Run(t, Prop[caseC10]{ID: "C10", Gen: genC10, Check: checkC10})
}
