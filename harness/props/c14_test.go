package props

import (
	"fmt"
	"sort"
	"strings"
	"testing"

	"github.com/jotaen/klog/klog"
	"github.com/jotaen/klog/klog/app/cli"
	"github.com/jotaen/klog/klog/app/cli/util"
	"github.com/jotaen/klog/klog/parser"
	"github.com/jotaen/klog/klog/service"
	"pgregory.net/rapid"
	"verifharness/evid"
	"verifharness/gen"
	"verifharness/model"
)

// C14 — tags are recognised, matched and totalled as the specification defines.

type caseC14 struct {
	Line   *model.Text   `json:",omitempty"` // part 1: one summary line
	Doc    *model.Doc    `json:",omitempty"` // part 2: accounting over a document
	Layout *model.Layout `json:",omitempty"`
}

var c14Alphabet = []string{"a", "B", "é", "日", "1", "_", "-", "#", "=", "\"", "'", " ", "."}

func checkTagLine(line string) (Outcome, error) {
	var out Outcome
	want, unsure := model.ScanTags(line)
	sum, err := klog.NewEntrySummary(line)
	if err != nil {
		return out, fmt.Errorf("harness: summary %q refused", line)
	}
	ts := sum.Tags()
	got := ts.ToStrings()
	if unsure {
		out.Label("unsure:double-hash")
		return out, nil
	}
	var wantS []string
	for _, t := range want {
		wantS = append(wantS, model.TagString(t))
	}
	// which tags are recognised: a set (order and repetition of ToStrings are not constrained)
	asSet := func(xs []string) string {
		m := map[string]bool{}
		for _, x := range xs {
			m[x] = true
		}
		var ks []string
		for k := range m {
			ks = append(ks, k)
		}
		sort.Strings(ks)
		return strings.Join(ks, "\x00")
	}
	if asSet(got) != asSet(wantS) {
		return out, fmt.Errorf("summary %q: klog recognises %q, the specification defines %q", line, got, wantS)
	}
	if ts.IsEmpty() != (len(want) == 0) {
		return out, fmt.Errorf("summary %q: IsEmpty()=%v with %d tags", line, ts.IsEmpty(), len(want))
	}
	// matching
	flip := func(s string) string {
		var sb strings.Builder
		for _, r := range s {
			if strings.ToUpper(string(r)) != string(r) {
				sb.WriteString(strings.ToUpper(string(r)))
			} else {
				sb.WriteString(strings.ToLower(string(r)))
			}
		}
		return sb.String()
	}
	for _, t := range want {
		probe := func(name, value string, expect bool, why string) error {
			if strings.Contains(value, "\"") && strings.Contains(value, "'") {
				return nil
			}
			q := klog.NewTagOrPanic(name, value)
			if ts.Contains(q) != expect {
				return fmt.Errorf("summary %q: Contains(%s) = %v, expected %v (%s)", line, q.ToString(), !expect, expect, why)
			}
			return nil
		}
		if err := probe(t.Name, "", true, "bare name matches"); err != nil {
			return out, err
		}
		if err := probe(strings.ToUpper(t.Name), "", true, "names are case-insensitive"); err != nil {
			return out, err
		}
		if t.Value != "" {
			if err := probe(t.Name, t.Value, true, "same value"); err != nil {
				return out, err
			}
			other := flip(t.Value)
			otherPresent := false
			for _, x := range want {
				if x.Name == t.Name && x.Value == other {
					otherPresent = true
				}
			}
			if other != t.Value && !otherPresent {
				if err := probe(t.Name, other, false, "values are case-sensitive"); err != nil {
					return out, err
				}
			}
		}
		absent := t.Value + "x"
		present := false
		for _, x := range want {
			if x.Name == t.Name && x.Value == absent {
				present = true
			}
		}
		if !present {
			if err := probe(t.Name, absent, false, "different value"); err != nil {
				return out, err
			}
		}
	}
	if len(want) == 0 {
		if ts.Contains(klog.NewTagOrPanic("a", "")) {
			return out, fmt.Errorf("summary %q has no tags but contains #a", line)
		}
	}
	candidates := strings.Count(line, "#")
	valued := false
	for _, t := range want {
		if t.Value != "" {
			valued = true
		}
	}
	out.NonTrivial = candidates >= 2 && (valued || strings.Contains(line, "#") && len(want) >= 2)
	if len(want) > 0 {
		out.Label("has-tags")
	}
	return out, nil
}

type tagKey struct{ name, value string }

func checkTagAccounting(d model.Doc, l model.Layout) (Outcome, error) {
	var out Outcome
	text, _ := model.Render(d, l)
	records, _, errs := parser.NewSerialParser().Parse(text)
	if errs != nil {
		out.Label("rejected-by-parser")
		return out, nil
	}
	// reference: each entry counts once for every tag name and every tag=value it carries
	total := map[tagKey]int{}
	count := map[tagKey]int{}
	unsure := false
	for _, r := range d.Records {
		rt, u := model.TagsOfLines(model.Strs(r.Summary))
		unsure = unsure || u
		for _, e := range r.Entries {
			et, u2 := model.TagsOfLines(model.Strs(e.Summary))
			unsure = unsure || u2
			keys := map[tagKey]bool{}
			for _, t := range append(append([]model.Tag{}, rt...), et...) {
				keys[tagKey{t.Name, ""}] = true
				if t.Value != "" {
					keys[tagKey{t.Name, t.Value}] = true
				}
			}
			for k := range keys {
				total[k] += e.Minutes()
				count[k]++
			}
		}
	}
	if unsure {
		out.Label("unsure:double-hash")
		return out, nil
	}
	stats := service.AggregateTotalsByTags(records...)
	seen := map[tagKey]bool{}
	prev, unordered := "", false
	for i, s := range stats {
		k := tagKey{s.Tag.Name(), s.Tag.Value()}
		if seen[k] {
			return out, fmt.Errorf("tag %s listed twice\ntext: %s", s.Tag.ToString(), quoteShort(text))
		}
		seen[k] = true
		if _, ok := total[k]; !ok {
			return out, fmt.Errorf("tag %s is reported but no entry carries it\ntext: %s", s.Tag.ToString(), quoteShort(text))
		}
		if s.Total.InMinutes() != total[k] || s.Count != count[k] {
			return out, fmt.Errorf("tag %s: total %d min in %d entries, reference %d min in %d entries\ntext: %s", s.Tag.ToString(), s.Total.InMinutes(), s.Count, total[k], count[k], quoteShort(text))
		}
		// the order of the rows is presentation: the property does not constrain it
		key := k.name + "=" + k.value
		if i > 0 && key < prev {
			unordered = true
		}
		prev = key
	}
	if unordered {
		out.Label("rows-not-in-byte-order")
	}
	if len(seen) != len(total) {
		var missing []string
		for k := range total {
			if !seen[k] {
				missing = append(missing, k.name+"="+k.value)
			}
		}
		sort.Strings(missing)
		return out, fmt.Errorf("tags %v are carried by entries but not reported\ntext: %s", missing, quoteShort(text))
	}
	// CLI: klog tags --values --count --decimal lists one row per key with the same numbers
	h := newInlineHarness(goTime(model.DaysFromCivil(2024, 5, 5), 600), text, 1, "no_colour")
	res := h.Run(&cli.Tags{Values: true, Count: true, DecimalArgs: util.DecimalArgs{Decimal: true}, WarnArgs: util.WarnArgs{NoWarn: true}, NoStyleArgs: util.NoStyleArgs{NoStyle: true}})
	if res.Err != nil {
		return out, fmt.Errorf("klog tags failed: %s", res.Err.Error())
	}
	// Reading of the text output: the layout (row order, header or footer lines, how a value row
	// refers to its tag) is presentation, so this is tolerant: every row that can be read as
	// `#name total (count)`, `#name=value total (count)` or, below a name row, `value total (count)`
	// must state the reference numbers, and when rows can be read at all, no tag may be missing.
	found := map[tagKey]bool{}
	readable := 0
	if res.Out != "" {
		curName := ""
		for _, row := range strings.Split(strings.TrimSuffix(res.Out, "\n"), "\n") {
			f := strings.Fields(row)
			if len(f) != 3 || !strings.HasPrefix(f[2], "(") || !strings.HasSuffix(f[2], ")") {
				if strings.HasPrefix(strings.TrimSpace(row), "#") {
					curName = ""
				}
				continue // value with blanks or another layout: not readable, skipped
			}
			var k tagKey
			if strings.HasPrefix(f[0], "#") {
				name, value, _ := strings.Cut(strings.TrimPrefix(f[0], "#"), "=")
				if value == "" {
					curName = name
				}
				k = tagKey{name, value}
			} else if curName != "" {
				k = tagKey{curName, f[0]}
			} else {
				continue
			}
			wantT, ok := total[k]
			if !ok {
				continue // e.g. a value that itself looks like another token; exact check is at service level
			}
			readable++
			found[k] = true
			if f[1] != fmt.Sprint(wantT) || f[2] != fmt.Sprintf("(%d)", count[k]) {
				return out, fmt.Errorf("klog tags row %q: reference total %d in %d entries\ntext: %s", row, wantT, count[k], quoteShort(text))
			}
		}
	}
	if readable > 0 {
		for k := range total {
			if !found[k] && !strings.ContainsAny(k.value, " \t\"'=#") && k.value == strings.TrimSpace(k.value) {
				return out, fmt.Errorf("klog tags does not list #%s=%s (reference total %d in %d entries)\ntext: %s\noutput:\n%s", k.name, k.value, total[k], count[k], quoteShort(text), res.Out)
			}
		}
		out.Label("tags-output:read")
	} else if len(total) > 0 {
		out.Label("tags-output:not-readable")
	}
	redundant := false
	for k, n := range count {
		_ = k
		if n >= 2 {
			redundant = true
		}
	}
	out.NonTrivial = len(total) >= 2 && redundant
	out.Label("accounting")
	return out, nil
}

func checkC14(c caseC14) (Outcome, error) {
	if c.Line != nil {
		return checkTagLine(string(*c.Line))
	}
	if c.Doc != nil && c.Layout != nil {
		return checkTagAccounting(*c.Doc, *c.Layout)
	}
	return Outcome{}, fmt.Errorf("empty case")
}

func eachC14(maxLen int) func(shard, shards int, ev *evid.Rec, emit func(caseC14) bool) {
	return func(shard, shards int, ev *evid.Rec, emit func(caseC14) bool) {
		k := len(c14Alphabet)
		idx := 0
		for n := 0; n <= maxLen; n++ {
			total := 1
			for i := 0; i < n; i++ {
				total *= k
			}
			for v := 0; v < total; v++ {
				idx++
				if idx%shards != shard {
					continue
				}
				var sb strings.Builder
				x := v
				for i := 0; i < n; i++ {
					sb.WriteString(c14Alphabet[x%k])
					x /= k
				}
				line := model.Text(sb.String())
				if !emit(caseC14{Line: &line}) {
					return
				}
			}
		}
		ev.SetExhaustive(true)
		ev.Note(fmt.Sprintf("exhaustive part: all summaries of <= %d symbols over %q", maxLen, c14Alphabet))
	}
}

var c14Words = []string{"#work-x", "#work2", "#work=a", "#work-x=7", "#tag-2", "#tag2=v", "#tag", "#Tag", "#TAG", "#tag=v", "#tag=V", "#tag=\"a b\"", "#tag='a b'", "#tag=\"it's\"", "#tag=", "#tag=\"\"", "#tag=\"open", "#a#b", "#x=y=z", "#work,", "(#work)", "#work", "#Work=1", "#work=1", "#読む", "#ü", "#Ü", "#1", "#a_b", "#a-b", "foo", "bar", "#", "=", "#p=\"22/48.3\"", "#İ", "#ǅ", "#tag='say \"hi\"'", "#Straße", "#STRASSE", "#ß", "#ẞ", "#e\u0301x", "#😀", "#tag=😀x", "#i", "#ǆ", "#１２", "#tag=１", "#tag=\"ß\"", "#tag=ẞ", "#tag=ß"}

func genC14(t *rapid.T, _ *evid.Rec) caseC14 {
	line := func(label string) string {
		n := rapid.IntRange(1, 5).Draw(t, label+"N")
		var parts []string
		for i := 0; i < n; i++ {
			parts = append(parts, rapid.SampledFrom(c14Words).Draw(t, label+"W"))
		}
		return strings.Join(parts, rapid.SampledFrom([]string{" ", " ", "", ", "}).Draw(t, label+"Sep"))
	}
	if rapid.IntRange(0, 3).Draw(t, "part") == 0 {
		l := model.Text(line("line"))
		return caseC14{Line: &l}
	}
	d := gen.Doc(t, gen.Opts{MaxRecords: 4, MaxEntries: 4, NoSummary: true})
	for ri := range d.Records {
		r := &d.Records[ri]
		for i, n := 0, rapid.IntRange(0, 2).Draw(t, "nRSum"); i < n; i++ {
			s := line("rsum")
			if model.StartsWithBlank(s) || s == "" {
				s = "x" + s
			}
			r.Summary = append(r.Summary, model.Text(s))
		}
		for ei := range r.Entries {
			switch rapid.IntRange(0, 4).Draw(t, "eSumShape") {
			case 0:
			case 4: // the summary starts on the line after the entry
				r.Entries[ei].Summary = model.Texts("", line("esumNext"))
			case 1:
				r.Entries[ei].Summary = model.Texts(line("esum"))
			default:
				r.Entries[ei].Summary = model.Texts(line("esum"), "x "+line("esum2"))
			}
		}
	}
	l := gen.Layout(t, len(d.Records))
	return caseC14{Doc: &d, Layout: &l}
}

func TestC14(t *testing.T) {
	p := Prop[caseC14]{ID: "C14", Gen: genC14, Check: checkC14}
	if replay(t, p) {
		return
	}
	ev := evid.New("C14")
	failed := false
	defer func() { ev.Write(true, failed) }()
	maxLen := 5
	if thorough() {
		maxLen = 6
	}
	failed = RunEnumWith(t, ev, Enum[caseC14]{ID: "C14", Check: checkC14, Each: eachC14(maxLen)})
	if failed {
		return
	}
	ev.SetExhaustive(false)
	failed = RunWith(t, ev, p)
}
