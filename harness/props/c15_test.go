package props

import (
	"fmt"
	"sort"
	"testing"

	"github.com/jotaen/klog/klog"
	"github.com/jotaen/klog/klog/service/period"
	"verifharness/evid"
	"verifharness/model"
)

// C15 — calendar periods tile the calendar exactly.

type caseC15 struct {
	Part string // date, pattern, hashes
	Day  int    `json:",omitempty"` // day number (Part date)
	S    string `json:",omitempty"` // pattern string
}

func kd(day int) klog.Date {
	y, m, d := model.CivilFromDays(day)
	x, err := klog.NewDate(y, m, d)
	if err != nil {
		panic(fmt.Sprintf("harness: date %d-%d-%d not constructible", y, m, d))
	}
	return x
}

func sameDay(d klog.Date, day int) bool { return docDayOf(d) == day }

func docDayOf(d klog.Date) int { return model.DaysFromCivil(d.Year(), d.Month(), d.Day()) }

func wantPeriod(what string, p period.Period, since, until int) error {
	if !sameDay(p.Since(), since) || !sameDay(p.Until(), until) {
		return fmt.Errorf("%s is %s..%s, want %s..%s", what, p.Since().ToString(), p.Until().ToString(), model.DateOfDays(since, false).Lit(), model.DateOfDays(until, false).Lit())
	}
	return nil
}

// reference periods (day numbers)
func refWeek(day int) (int, int) { wd := model.WeekdayOfDays(day); return day - wd + 1, day - wd + 7 }
func refMonth(day int) (int, int) {
	y, m, _ := model.CivilFromDays(day)
	return model.DaysFromCivil(y, m, 1), model.DaysFromCivil(y, m, model.DaysInMonth(y, m))
}
func refQuarter(day int) (int, int) {
	y, m, _ := model.CivilFromDays(day)
	q := model.Quarter(m)
	lm := q * 3
	return model.DaysFromCivil(y, lm-2, 1), model.DaysFromCivil(y, lm, model.DaysInMonth(y, lm))
}
func refYear(day int) (int, int) {
	y, _, _ := model.CivilFromDays(day)
	return model.DaysFromCivil(y, 1, 1), model.DaysFromCivil(y, 12, 31)
}

func representable(a, b int) bool { return a >= model.MinDay && b <= model.MaxDay }

func checkC15(c caseC15) (Outcome, error) {
	var out Outcome
	switch c.Part {
	case "date":
		day := c.Day
		y, m, dd := model.CivilFromDays(day)
		d := kd(day)
		lit := model.DateOfDays(day, false).Lit()
		if d.Weekday() != model.WeekdayOfDays(day) {
			return out, fmt.Errorf("%s: weekday %d, want %d", lit, d.Weekday(), model.WeekdayOfDays(day))
		}
		wy, wn := d.WeekNumber()
		rw, rwy := model.ISOWeek(y, m, dd)
		if wn != rw || wy != rwy {
			return out, fmt.Errorf("%s: ISO week %d of %d, want %d of %d", lit, wn, wy, rw, rwy)
		}
		if d.Quarter() != model.Quarter(m) {
			return out, fmt.Errorf("%s: quarter %d, want %d", lit, d.Quarter(), model.Quarter(m))
		}
		if nd := d.PlusDays(0); !nd.IsEqualTo(d) {
			return out, fmt.Errorf("%s: PlusDays(0) changes the date", lit)
		}
		if day < model.MaxDay {
			if nx := d.PlusDays(1); docDayOf(nx) != day+1 || !nx.IsAfterOrEqual(d) || d.IsAfterOrEqual(nx) {
				return out, fmt.Errorf("%s: the next day is %s", lit, nx.ToString())
			}
		}
		// periods
		ws, wu := refWeek(day)
		if representable(ws, wu) {
			if err := wantPeriod(lit+": week", period.NewWeekFromDate(d).Period(), ws, wu); err != nil {
				return out, err
			}
			if representable(ws-7, wu) {
				if err := wantPeriod(lit+": previous week", period.NewWeekFromDate(d).Previous().Period(), ws-7, ws-1); err != nil {
					return out, err
				}
			}
		} else {
			out.Label("excluded:week-not-representable")
		}
		ms, mu := refMonth(day)
		if err := wantPeriod(lit+": month", period.NewMonthFromDate(d).Period(), ms, mu); err != nil {
			return out, err
		}
		if ms > model.MinDay {
			ps, pu := refMonth(ms - 1)
			if err := wantPeriod(lit+": previous month", period.NewMonthFromDate(d).Previous().Period(), ps, pu); err != nil {
				return out, err
			}
		}
		qs, qu := refQuarter(day)
		if err := wantPeriod(lit+": quarter", period.NewQuarterFromDate(d).Period(), qs, qu); err != nil {
			return out, err
		}
		if qs > model.MinDay {
			ps, pu := refQuarter(qs - 1)
			if err := wantPeriod(lit+": previous quarter", period.NewQuarterFromDate(d).Previous().Period(), ps, pu); err != nil {
				return out, err
			}
		}
		ys, yu := refYear(day)
		if err := wantPeriod(lit+": year", period.NewYearFromDate(d).Period(), ys, yu); err != nil {
			return out, err
		}
		if ys > model.MinDay {
			ps, pu := refYear(ys - 1)
			if err := wantPeriod(lit+": previous year", period.NewYearFromDate(d).Previous().Period(), ps, pu); err != nil {
				return out, err
			}
		}
		// buckets: the hash of a date equals the hash of the first day of its reference period
		if uint32(period.NewMonthFromDate(d).Hash()) != uint32(period.NewMonthFromDate(kd(ms)).Hash()) ||
			uint32(period.NewQuarterFromDate(d).Hash()) != uint32(period.NewQuarterFromDate(kd(qs)).Hash()) ||
			uint32(period.NewYearFromDate(d).Hash()) != uint32(period.NewYearFromDate(kd(ys)).Hash()) {
			return out, fmt.Errorf("%s: month/quarter/year bucket differs from the bucket of the first day of its period", lit)
		}
		rep := ws
		if rep < model.MinDay {
			rep = model.MinDay
		}
		if uint32(period.NewWeekFromDate(d).Hash()) != uint32(period.NewWeekFromDate(kd(rep)).Hash()) {
			return out, fmt.Errorf("%s: week bucket differs from the bucket of the first day of its week", lit)
		}
		lastOfYear := model.DaysFromCivil(y, 12, 31)
		firstOfYear := model.DaysFromCivil(y, 1, 1)
		out.NonTrivial = day-firstOfYear < 7 || lastOfYear-day < 7 || rw == 53 || (m == 2 && dd == 29)
		return out, nil

	case "hashes":
		// distinct periods get distinct buckets (global injectivity over the whole calendar)
		type kind struct {
			name string
			next func(day int) (hash uint32, until int)
		}
		kinds := []kind{
			{"day", func(day int) (uint32, int) { return uint32(period.NewDayFromDate(kd(day)).Hash()), day }},
			{"week", func(day int) (uint32, int) {
				_, u := refWeek(day)
				return uint32(period.NewWeekFromDate(kd(day)).Hash()), u
			}},
			{"month", func(day int) (uint32, int) {
				_, u := refMonth(day)
				return uint32(period.NewMonthFromDate(kd(day)).Hash()), u
			}},
			{"quarter", func(day int) (uint32, int) {
				_, u := refQuarter(day)
				return uint32(period.NewQuarterFromDate(kd(day)).Hash()), u
			}},
			{"year", func(day int) (uint32, int) {
				_, u := refYear(day)
				return uint32(period.NewYearFromDate(kd(day)).Hash()), u
			}},
		}
		for _, k := range kinds {
			var hs []uint32
			for day := model.MinDay; day <= model.MaxDay; {
				h, until := k.next(day)
				hs = append(hs, h)
				day = until + 1
			}
			sort.Slice(hs, func(i, j int) bool { return hs[i] < hs[j] })
			for i := 1; i < len(hs); i++ {
				if hs[i] == hs[i-1] {
					return out, fmt.Errorf("two different %s periods fall into the same bucket (hash %d)", k.name, hs[i])
				}
			}
			out.Label(fmt.Sprintf("distinct-%s-buckets:%d", k.name, len(hs)))
		}
		out.NonTrivial = true
		return out, nil

	case "pattern":
		s := c.S
		since, until, valid, skip := refPattern(s)
		if skip {
			out.Label("excluded:pattern-period-not-representable")
			return out, nil
		}
		p, err := period.NewPeriodFromPatternString(s)
		if !inFourShapes(s) && malformedInstance(s) {
			// digits, `-`, `Q`, `W`, sign and blank only, but not one of the shapes: a malformed
			// instance of the pattern syntax (wrong digit count, stray sign or blank, missing number).
			// klog reads a single-digit week (`2020-W1`); everything else of this kind is rejected.
			if err == nil && !valid {
				return out, fmt.Errorf("malformed period pattern %q is accepted", s)
			}
			if err == nil {
				if e := wantPeriod("pattern "+s, p, since, until); e != nil {
					return out, e
				}
			}
			out.Label("malformed-instance")
			out.NonTrivial = true
			return out, nil
		}
		if !inFourShapes(s) {
			// The property speaks about the four shapes YYYY, YYYY-MM, YYYY-Qq, YYYY-Www. Whether
			// klog is lenient about other spellings (`2020/01`, `2020-1`, `2020-q1`) is its own
			// business; they only must not crash. A single-digit week (`2020-W1`), which klog reads
			// today, must still denote that week when it is accepted.
			if err == nil && valid {
				if e := wantPeriod("pattern "+s, p, since, until); e != nil {
					return out, e
				}
			}
			if err == nil {
				out.Label("outside-four-shapes:accepted")
			} else {
				out.Label("outside-four-shapes:rejected")
			}
			return out, nil
		}
		if (err == nil) != valid {
			return out, fmt.Errorf("period pattern %q: klog accepts=%v, expected valid=%v", s, err == nil, valid)
		}
		if valid {
			if e := wantPeriod("pattern "+s, p, since, until); e != nil {
				return out, e
			}
			out.Label("pattern-accepted")
		} else {
			out.Label("pattern-rejected")
		}
		out.NonTrivial = true
		return out, nil
	}
	return out, fmt.Errorf("unknown part")
}

// inFourShapes reports whether s has one of the shapes YYYY, YYYY-MM, YYYY-Qq, YYYY-Www (digits
// in the places of the letters Y, M, q, w), whatever the numbers are.
func inFourShapes(s string) bool {
	digits := func(t string) bool { _, ok := atoiStrict(t); return ok }
	if len(s) < 4 || !digits(s[:4]) {
		return false
	}
	rest := s[4:]
	switch {
	case rest == "":
		return true
	case len(rest) == 3 && rest[0] == '-' && digits(rest[1:]):
		return true
	case len(rest) == 3 && rest[:2] == "-Q" && digits(rest[2:]):
		return true
	case len(rest) == 4 && rest[:2] == "-W" && digits(rest[2:]):
		return true
	}
	return false
}

// malformedInstance: s is written with the characters of the pattern syntax only.
func malformedInstance(s string) bool {
	for _, r := range s {
		if !(r >= '0' && r <= '9') && r != '-' && r != 'Q' && r != 'W' && r != '+' && r != ' ' {
			return false
		}
	}
	return true
}

func atoiStrict(s string) (int, bool) {
	if s == "" {
		return 0, false
	}
	n := 0
	for i := 0; i < len(s); i++ {
		if s[i] < '0' || s[i] > '9' {
			return 0, false
		}
		n = n*10 + int(s[i]-'0')
	}
	return n, true
}

// refPattern is the reference reading of a period pattern.
func refPattern(s string) (since, until int, valid bool, skip bool) {
	if len(s) < 4 {
		return 0, 0, false, false
	}
	y, ok := atoiStrict(s[:4])
	if !ok {
		return 0, 0, false, false
	}
	rest := s[4:]
	switch {
	case rest == "":
		return model.DaysFromCivil(y, 1, 1), model.DaysFromCivil(y, 12, 31), true, false
	case len(rest) == 3 && rest[0] == '-' && rest[1] != 'Q' && rest[1] != 'W':
		m, ok := atoiStrict(rest[1:])
		if !ok || m < 1 || m > 12 {
			return 0, 0, false, false
		}
		return model.DaysFromCivil(y, m, 1), model.DaysFromCivil(y, m, model.DaysInMonth(y, m)), true, false
	case len(rest) == 3 && rest[:2] == "-Q":
		q, ok := atoiStrict(rest[2:])
		if !ok || q < 1 || q > 4 {
			return 0, 0, false, false
		}
		return model.DaysFromCivil(y, q*3-2, 1), model.DaysFromCivil(y, q*3, model.DaysInMonth(y, q*3)), true, false
	case (len(rest) == 4 || len(rest) == 3) && rest[:2] == "-W":
		w, ok := atoiStrict(rest[2:])
		if !ok || w < 1 || w > model.WeeksInISOYear(y) {
			return 0, 0, false, false
		}
		// Monday of week 1 is the Monday of the week that contains January 4th
		jan4 := model.DaysFromCivil(y, 1, 4)
		mon1 := jan4 - model.WeekdayOfDays(jan4) + 1
		since = mon1 + (w-1)*7
		until = since + 6
		if !representable(since, until) {
			// the week extends beyond 9999-12-31: there is no period klog could denote, so the
			// pattern has to be rejected (it used to panic: finding F14)
			return 0, 0, false, false
		}
		return since, until, true, false
	}
	return 0, 0, false, false
}

func eachC15(shard, shards int, ev *evid.Rec, emit func(caseC15) bool) {
	quick := !thorough()
	idx := 0
	mine := func() bool { idx++; return idx%shards == shard }
	sampledYear := func(y int) bool {
		return !quick || y <= 1 || y >= 9998 || (y >= 1990 && y <= 2040) || y%25 == 0 || y%400 == 399
	}
	for y := 0; y <= 9999; y++ {
		if !mine() {
			continue
		}
		first, last := model.DaysFromCivil(y, 1, 1), model.DaysFromCivil(y, 12, 31)
		for day := first; day <= last; day++ {
			if !sampledYear(y) && day-first >= 10 && last-day >= 10 {
				continue
			}
			if !emit(caseC15{Part: "date", Day: day}) {
				return
			}
		}
		// patterns of this year
		ys := fmt.Sprintf("%04d", y)
		pats := []string{ys}
		for m := 0; m <= 99; m++ {
			pats = append(pats, fmt.Sprintf("%s-%02d", ys, m))
		}
		pats = append(pats, ys+"-1")
		for q := 0; q <= 9; q++ {
			pats = append(pats, fmt.Sprintf("%s-Q%d", ys, q))
		}
		for w := 0; w <= 99; w++ {
			pats = append(pats, fmt.Sprintf("%s-W%02d", ys, w))
			if w < 10 {
				pats = append(pats, fmt.Sprintf("%s-W%d", ys, w))
			}
		}
		if quick && !sampledYear(y) {
			pats = []string{ys, ys + "-02", ys + "-13", ys + "-Q4", ys + "-Q5", ys + "-W01", ys + "-W52", ys + "-W53", ys + "-W54", ys + "-W99"}
		}
		for _, p := range pats {
			if !emit(caseC15{Part: "pattern", S: p}) {
				return
			}
		}
	}
	if shard == 0 {
		for _, p := range []string{"", "2020-", "20-01", "2020-Q", "2020-W", "2020-W001", "2020-001", "2020-q1", "2020-w01", "2020-Q01", "2020/01", " 2020", "2020 ", "20200", "2020-01-01", "２０２０", "2020-W1x", "-2020", "+2020", "20", "020", "02020", "2020-1", "2020-+1", "2020-Q+1", "2020-W+1", "2020--01", "2020-Q-1", "+2020-01", "2020 -01", "2020- 01", "2020-W 1", "2020-Q 1", "0", "2020-W0", "2020-W", "2020-Q", "2020-", "99999", "2020-W100", "2020-Q10", "2020-100"} {
			if !emit(caseC15{Part: "pattern", S: p}) {
				return
			}
		}
		if !emit(caseC15{Part: "hashes"}) {
			return
		}
	}
	ev.SetExhaustive(!quick)
	if quick {
		ev.Note("quick tier: every date of about 480 sampled years (0000, 0001, 1990-2040, every 25th, 9998, 9999) plus the first and last 10 days of every year; a reduced pattern set for the other years; global bucket injectivity over all periods")
	} else {
		ev.Note("thorough tier: all 3 652 425 dates and all pattern strings of the four shapes for all years; global bucket injectivity over all periods")
	}
}

func TestC15(t *testing.T) {
	RunEnum(t, Enum[caseC15]{ID: "C15", Check: checkC15, Each: eachC15})
}
