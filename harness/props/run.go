package props

import (
	"encoding/json"
	"fmt"
	"os"
	"path/filepath"
	"runtime/debug"
	"strconv"
	"testing"

	"pgregory.net/rapid"
	"verifharness/evid"
)

// Outcome is what a check reports about a passing case.
type Outcome struct {
	NonTrivial bool
	Labels     []string
}

func (o *Outcome) Label(l string) { o.Labels = append(o.Labels, l) }

// Prop is one property check: a generator of JSON-serialisable cases and a pure oracle.
type Prop[C any] struct {
	ID    string
	Gen   func(t *rapid.T, ev *evid.Rec) C
	Check func(c C) (Outcome, error)
}

func tier() string {
	if os.Getenv("VERIF_TIER") == "thorough" {
		return "thorough"
	}
	return "quick"
}

func thorough() bool { return tier() == "thorough" }

func envInt(name string, def int) int {
	if v, err := strconv.Atoi(os.Getenv(name)); err == nil {
		return v
	}
	return def
}

// safeCheck runs the oracle and converts a panic into a failure (with stack).
func safeCheck[C any](check func(C) (Outcome, error), c C) (out Outcome, err error) {
	defer func() {
		if r := recover(); r != nil {
			err = fmt.Errorf("PANIC: %v\n%s", r, debug.Stack())
		}
	}()
	return check(c)
}

// Replay runs the oracle on a saved case, bypassing rapid. Returns true if handled.
func replay[C any](t *testing.T, p Prop[C]) bool {
	path := os.Getenv("VERIF_REPLAY")
	if path == "" {
		return false
	}
	raw, err := os.ReadFile(path)
	if err != nil {
		t.Fatalf("cannot read replay file: %v", err)
	}
	var f evid.Failure
	if err := json.Unmarshal(raw, &f); err != nil {
		t.Fatalf("bad replay file: %v", err)
	}
	var c C
	if err := json.Unmarshal(f.Case, &c); err != nil {
		t.Fatalf("bad replay case: %v", err)
	}
	_, cerr := safeCheck(p.Check, c)
	if cerr != nil {
		fmt.Printf("REPLAY-FAIL property=%s: %v\n", p.ID, cerr)
		t.Fail()
	} else {
		fmt.Printf("REPLAY-PASS property=%s\n", p.ID)
	}
	return true
}

// Run drives a property with rapid (or replays one saved case when VERIF_REPLAY is set).
func Run[C any](t *testing.T, p Prop[C]) {
	if replay(t, p) {
		return
	}
	ev := evid.New(p.ID)
	failed := false
	defer func() { ev.Write(true, failed) }()
	failed = RunWith(t, ev, p)
}

// RunWith is Run with a caller-owned evidence recorder (for checks that consist of several parts).
func RunWith[C any](t *testing.T, ev *evid.Rec, p Prop[C]) (failed bool) {
	rapid.Check(rapidT{t, &failed}, func(rt *rapid.T) {
		c := p.Gen(rt, ev)
		journal(p.ID, c)
		out, err := safeCheck(p.Check, c)
		if err != nil {
			failed = true
			evid.WriteFailure(p.ID, c, err.Error())
			rt.Fatalf("%v", err)
		}
		if !failed {
			ev.Case(c, out.NonTrivial, out.Labels...)
		}
	})
	return failed
}

// journal saves the case about to be evaluated, so that the driver can replay it if the
// process dies (e.g. a panic inside a goroutine started by klog cannot be recovered here).
func journal(id string, c any) {
	b, err := json.Marshal(c)
	if err != nil {
		return
	}
	f := evid.Failure{Property: id, Error: "process died while evaluating this case", Case: b}
	out, _ := json.Marshal(f)
	os.WriteFile(journalPath(id), out, 0o644)
}

func journalPath(id string) string {
	return filepath.Join(evid.OutDir(), fmt.Sprintf("%s.shard%d.current.json", id, evid.ShardIndex()))
}

// rapidT lets us learn that rapid reported a failure without losing the deferred shard write.
type rapidT struct {
	*testing.T
	failed *bool
}

func (r rapidT) Errorf(format string, args ...any) { *r.failed = true; r.T.Errorf(format, args...) }
func (r rapidT) Fatalf(format string, args ...any) { *r.failed = true; r.T.Fatalf(format, args...) }
func (r rapidT) Error(args ...any)                 { *r.failed = true; r.T.Error(args...) }
func (r rapidT) Fatal(args ...any)                 { *r.failed = true; r.T.Fatal(args...) }
func (r rapidT) FailNow()                          { *r.failed = true; r.T.FailNow() }
func (r rapidT) Fail()                             { *r.failed = true; r.T.Fail() }

// Enum drives an exhaustive enumeration: body is called once per shard and reports the first
// failing case through fail(c, err).
type Enum[C any] struct {
	ID    string
	Check func(c C) (Outcome, error)
	// Each calls emit for every case of this shard's part of the domain; emit returns false to stop.
	Each func(shard, shards int, ev *evid.Rec, emit func(c C) bool)
	// Journal: write every case to the journal before evaluating it (needed where the code under
	// test starts goroutines: a panic there kills the process, and the driver replays the journal).
	Journal bool
}

func RunEnum[C any](t *testing.T, e Enum[C]) {
	if replay(t, Prop[C]{ID: e.ID, Check: e.Check}) {
		return
	}
	ev := evid.New(e.ID)
	failed := false
	defer func() { ev.Write(true, failed) }()
	failed = RunEnumWith(t, ev, e)
}

func RunEnumWith[C any](t *testing.T, ev *evid.Rec, e Enum[C]) (failed bool) {
	var n, nt int64
	samples := 0
	labels := map[string]int64{}
	useJournal := e.Journal || os.Getenv("VERIF_JOURNAL") != ""
	e.Each(evid.ShardIndex(), evid.ShardCount(), ev, func(c C) bool {
		if useJournal {
			journal(e.ID, c)
		}
		out, err := safeCheck(e.Check, c)
		if err != nil {
			evid.WriteFailure(e.ID, c, err.Error())
			t.Errorf("%v", err)
			failed = true
			return false
		}
		n++
		if out.NonTrivial {
			nt++
			if samples < 6 && (nt == 1 || nt == 17 || nt%100003 == 0) {
				ev.Sample(c)
				samples++
			}
		}
		for _, l := range out.Labels {
			labels[l]++
		}
		return true
	})
	ev.Count(n, nt)
	for l, k := range labels {
		ev.Label(l, k)
	}
	return failed
}

func stack() string { return string(debug.Stack()) }
