package props

import (
	"fmt"
	"strings"

	"github.com/jotaen/klog/klog"
	"verifharness/model"
)

// compareRecord checks that a record returned by klog denotes exactly what the AST says,
// including the notation facts klog promises to preserve. It never goes through klog's
// serialiser alone: values are read through the accessors and the canonical strings are
// compared against the model's own canonical spelling.
func compareRecord(want model.Record, got klog.Record) error {
	d := got.Date()
	if d.Year() != want.Date.Y || d.Month() != want.Date.M || d.Day() != want.Date.D {
		return fmt.Errorf("date: got %04d-%02d-%02d, want %s", d.Year(), d.Month(), d.Day(), want.Date.Lit())
	}
	if d.Format().UseDashes == want.Date.Slash {
		return fmt.Errorf("date %s: separator notation lost (UseDashes=%v)", want.Date.Lit(), d.Format().UseDashes)
	}
	if d.ToString() != want.Date.Lit() {
		return fmt.Errorf("date: ToString %q, want %q", d.ToString(), want.Date.Lit())
	}
	if got.ShouldTotal().InMinutes() != want.ShouldMins() {
		return fmt.Errorf("%s: should-total %d, want %d", want.Date.Lit(), got.ShouldTotal().InMinutes(), want.ShouldMins())
	}
	gs := got.Summary().Lines()
	if len(gs) != len(want.Summary) {
		return fmt.Errorf("%s: record summary has %d lines %q, want %d %q", want.Date.Lit(), len(gs), gs, len(want.Summary), want.Summary)
	}
	for i := range gs {
		if gs[i] != string(want.Summary[i]) {
			return fmt.Errorf("%s: record summary line %d is %q, want %q", want.Date.Lit(), i, gs[i], want.Summary[i])
		}
	}
	ge := got.Entries()
	if len(ge) != len(want.Entries) {
		return fmt.Errorf("%s: %d entries, want %d", want.Date.Lit(), len(ge), len(want.Entries))
	}
	for i := range ge {
		if err := compareEntry(want.Entries[i], &ge[i]); err != nil {
			return fmt.Errorf("%s entry %d (%s): %v", want.Date.Lit(), i, want.Entries[i].ValueLit(), err)
		}
	}
	return nil
}

func compareTime(want model.Time, got klog.Time, what string) error {
	if got.MidnightOffset().InMinutes() != want.Off {
		return fmt.Errorf("%s: offset %d, want %d", what, got.MidnightOffset().InMinutes(), want.Off)
	}
	shift := 0
	if got.IsYesterday() {
		shift = -1
	} else if got.IsTomorrow() {
		shift = 1
	}
	if shift != want.Shift() || got.Hour() != want.Hour() || got.Minute() != want.Minute() || got.IsToday() != (want.Shift() == 0) {
		return fmt.Errorf("%s: (shift,h,m)=(%d,%d,%d), want (%d,%d,%d)", what, shift, got.Hour(), got.Minute(), want.Shift(), want.Hour(), want.Minute())
	}
	if got.Format().Use24HourClock == want.Is12h {
		return fmt.Errorf("%s: clock notation lost (Use24HourClock=%v, literal %q)", what, got.Format().Use24HourClock, want.Lit)
	}
	if got.ToString() != model.CanonTime(want.Off, want.Is12h) {
		return fmt.Errorf("%s: ToString %q, want %q", what, got.ToString(), model.CanonTime(want.Off, want.Is12h))
	}
	return nil
}

func compareEntry(want model.Entry, got *klog.Entry) error {
	kind := ""
	var err error
	klog.Unbox[any](got, func(r klog.Range) any {
		kind = model.KRange
		if want.Kind != model.KRange {
			return nil
		}
		if e := compareTime(want.Start, r.Start(), "start"); e != nil {
			err = e
		} else if e := compareTime(want.End, r.End(), "end"); e != nil {
			err = e
		} else if r.Duration().InMinutes() != want.End.Off-want.Start.Off {
			err = fmt.Errorf("range duration %d, want %d", r.Duration().InMinutes(), want.End.Off-want.Start.Off)
		} else if want.SpacesKnown() && r.Format().UseSpacesAroundDash != want.Spaces() {
			err = fmt.Errorf("dash spacing notation lost")
		} else if r.ToString() != model.CanonValue(want) && (want.SpacesKnown() || r.ToString() != model.CanonValueBy(want, 2)) {
			err = fmt.Errorf("ToString %q, want %q", r.ToString(), model.CanonValue(want))
		}
		return nil
	}, func(d klog.Duration) any {
		kind = model.KDuration
		if want.Kind != model.KDuration {
			return nil
		}
		if d.InMinutes() != want.Dur.Mins {
			err = fmt.Errorf("duration %d, want %d", d.InMinutes(), want.Dur.Mins)
		} else if d.ToString() != model.CanonValue(want) {
			err = fmt.Errorf("ToString %q, want %q (sign notation)", d.ToString(), model.CanonValue(want))
		}
		return nil
	}, func(o klog.OpenRange) any {
		kind = model.KOpen
		if want.Kind != model.KOpen {
			return nil
		}
		if e := compareTime(want.Start, o.Start(), "start"); e != nil {
			err = e
		} else if want.SpacesKnown() && o.Format().UseSpacesAroundDash != want.Spaces() {
			err = fmt.Errorf("dash spacing notation lost")
		} else if o.Format().AdditionalPlaceholderChars != want.QMarks-1 {
			err = fmt.Errorf("placeholder count %d, want %d", o.Format().AdditionalPlaceholderChars+1, want.QMarks)
		} else if o.ToString() != model.CanonValue(want) && (want.SpacesKnown() || o.ToString() != model.CanonValueBy(want, 2)) {
			err = fmt.Errorf("ToString %q, want %q", o.ToString(), model.CanonValue(want))
		}
		return nil
	})
	if kind != want.Kind {
		return fmt.Errorf("kind %s, want %s", kind, want.Kind)
	}
	if err != nil {
		return err
	}
	if got.Duration().InMinutes() != want.Minutes() {
		return fmt.Errorf("entry duration %d, want %d", got.Duration().InMinutes(), want.Minutes())
	}
	gs := got.Summary().Lines()
	ws := want.Summary
	// klog represents "no summary" as [""]; accept nil as the same thing.
	if len(gs) == 0 {
		gs = []string{""}
	}
	if len(ws) == 0 {
		ws = model.Texts("")
	}
	if len(gs) != len(ws) {
		return fmt.Errorf("entry summary %q, want %q", gs, ws)
	}
	for i := range gs {
		if gs[i] != string(ws[i]) {
			return fmt.Errorf("entry summary line %d is %q, want %q", i, gs[i], ws[i])
		}
	}
	return nil
}

func compareDoc(want model.Doc, got []klog.Record) error {
	if len(got) != len(want.Records) {
		return fmt.Errorf("%d records, want %d", len(got), len(want.Records))
	}
	for i := range got {
		if got[i] == nil {
			return fmt.Errorf("record %d is nil", i)
		}
		if err := compareRecord(want.Records[i], got[i]); err != nil {
			return fmt.Errorf("record %d: %v", i, err)
		}
	}
	return nil
}

func klogDate(d model.Date) klog.Date {
	kd, err := klog.NewDate(d.Y, d.M, d.D)
	if err != nil {
		panic(fmt.Sprintf("harness: cannot construct date %v", d))
	}
	return kd
}

func quoteShort(s string) string {
	if len(s) > 400 {
		s = s[:400] + "…"
	}
	return fmt.Sprintf("%q", s)
}

var _ = strings.Repeat
