package props

import (
	"fmt"
	"strings"
	"testing"
	"unicode/utf8"

	"github.com/jotaen/klog/klog/app"
	"github.com/jotaen/klog/klog/app/cli"
	tf "github.com/jotaen/klog/klog/app/cli/terminalformat"
	"github.com/jotaen/klog/klog/app/cli/util"
	"pgregory.net/rapid"
	"verifharness/evid"
	"verifharness/gen"
	"verifharness/model"
)

// C18 — colour and styling never change what is printed.

type caseC18 struct {
	Doc    model.Doc
	Layout model.Layout
	Env    model.Env
	Agg    string
	Flags  int  // bit set choosing the optional flags
	Huge   bool `json:",omitempty"` // a single huge total: --chart is kept although the bar is very long
}

func genC18(t *rapid.T, _ *evid.Rec) caseC18 {
	c := caseC18{}
	c.Env = gen.Env(t, 0)
	c.Doc = gen.Doc(t, gen.Opts{MaxRecords: 6, NearDay: c.Env.NowDay, NearSpan: rapid.SampledFrom([]int{2, 20, 300}).Draw(t, "span"), MaxEntries: 4, BigDurations: true, Controls: rapid.IntRange(0, 5).Draw(t, "controls") == 0})
	c.Layout = gen.Layout(t, len(c.Doc.Records))
	c.Agg = rapid.SampledFrom([]string{"day", "week", "month", "quarter", "year"}).Draw(t, "agg")
	c.Flags = rapid.IntRange(0, 255).Draw(t, "flags")
	if rapid.IntRange(0, 39).Draw(t, "hugeChart") == 0 {
		// one record whose total makes a chart bar of more than a million blocks
		mins := rapid.IntRange(15_000_060, 24_000_000).Draw(t, "hugeMins")
		e := model.Entry{Kind: model.KDuration, Dur: model.Duration{Mins: mins, Lit: model.CanonDuration(mins, false, 0)}, Summary: model.Texts("huge")}
		c.Doc = model.Doc{Records: []model.Record{{Date: model.DateOfDays(c.Env.NowDay, false), Entries: []model.Entry{e}}}}
		c.Layout = model.Layout{FinalEOL: true}
		c.Agg = "day"
		c.Flags = 16 // --chart only
		c.Huge = true
	}
	return c
}

type runner interface{ Run(app.Context) app.Error }

func c18Commands(c caseC18, noStyle bool) map[string]runner {
	ns := util.NoStyleArgs{NoStyle: noStyle}
	w := util.WarnArgs{NoWarn: c.Flags&64 == 0}
	bit := func(b int) bool { return c.Flags&b != 0 }
	return map[string]runner{
		"print":        &cli.Print{NoStyleArgs: ns, WarnArgs: w},
		"print-totals": &cli.Print{WithTotals: true, NoStyleArgs: ns, WarnArgs: w, SortArgs: util.SortArgs{Sort: map[bool]string{true: "desc", false: ""}[bit(1)]}},
		"total":        &cli.Total{DiffArgs: util.DiffArgs{Diff: bit(2)}, DecimalArgs: util.DecimalArgs{Decimal: bit(4)}, NoStyleArgs: ns, WarnArgs: w},
		"report":       &cli.Report{AggregateBy: c.Agg, Fill: bit(8), Chart: bit(16), DiffArgs: util.DiffArgs{Diff: bit(2)}, DecimalArgs: util.DecimalArgs{Decimal: bit(4)}, NoStyleArgs: ns, WarnArgs: w},
		"tags":         &cli.Tags{Values: bit(1), Count: bit(32), DecimalArgs: util.DecimalArgs{Decimal: bit(4)}, NoStyleArgs: ns, WarnArgs: w},
		"today":        &cli.Today{DiffArgs: util.DiffArgs{Diff: bit(2)}, NowArgs: util.NowArgs{Now: bit(128)}, DecimalArgs: util.DecimalArgs{Decimal: bit(4)}, NoStyleArgs: ns, WarnArgs: w},
	}
}

var c18Tables = map[string]bool{"report": true, "tags": true, "today": true}

func checkC18(c caseC18) (Outcome, error) {
	var out Outcome
	text, _ := model.Render(c.Doc, c.Layout)
	// --chart output grows with the totals: keep it bounded
	for _, r := range c.Doc.Records {
		for _, e := range r.Entries {
			if m := e.Minutes(); (m > 100000 || m < -100000) && !c.Huge {
				c.Flags &^= 16
			}
		}
	}
	// --fill over long spans is slow and adds nothing here
	if len(c.Doc.Records) > 0 {
		lo, hi := c.Doc.Records[0].Date.Days(), c.Doc.Records[0].Date.Days()
		for _, r := range c.Doc.Records {
			if d := r.Date.Days(); d < lo {
				lo = d
			} else if d > hi {
				hi = d
			}
		}
		if hi-lo > 800 {
			c.Flags &^= 8
		}
	}
	hasESC := strings.Contains(text, "\x1b")
	now := envTime(c.Env)
	plainOut := map[string]string{}
	plainErr := map[string]string{}
	hp := newInlineHarness(now, text, 1, tf.COLOUR_THEME_DARK)
	for name, cmd := range c18Commands(c, true) {
		res := hp.Run(cmd)
		plainOut[name] = res.Out
		if res.Err != nil {
			plainErr[name] = res.Err.Error()
		}
		if !hasESC && strings.Contains(res.Out, "\x1b") {
			return out, fmt.Errorf("%s --no-style prints an escape sequence\ntext: %s\noutput: %s", name, quoteShort(text), quoteShort(res.Out))
		}
	}
	sawSGR := false
	for _, theme := range []tf.ColourTheme{tf.COLOUR_THEME_DARK, tf.COLOUR_THEME_LIGHT, tf.COLOUR_THEME_BASIC, tf.COLOUR_THEME_NO_COLOUR} {
		h := newInlineHarness(now, text, 1, theme)
		for name, cmd := range c18Commands(c, false) {
			res := h.Run(cmd)
			errText := ""
			if res.Err != nil {
				errText = res.Err.Error()
			}
			if stripSGR(errText) != stripSGR(plainErr[name]) {
				return out, fmt.Errorf("%s under theme %s fails differently (%q vs %q)", name, theme, errText, plainErr[name])
			}
			if strings.Contains(res.Out, "\x1b[") {
				sawSGR = true
			}
			if theme == tf.COLOUR_THEME_NO_COLOUR && !hasESC && strings.Contains(res.Out, "\x1b") {
				return out, fmt.Errorf("%s under theme no_colour prints an escape sequence\noutput: %s", name, quoteShort(res.Out))
			}
			if stripSGR(res.Out) != stripSGR(plainOut[name]) {
				return out, fmt.Errorf("%s under theme %s differs from the unstyled output by more than SGR sequences\ntext: %s\nstyled:   %s\nunstyled: %s", name, theme, quoteShort(text), quoteShort(res.Out), quoteShort(plainOut[name]))
			}
			if c18Tables[name] && strings.TrimSpace(res.Out) != "" && !hasESC && c.Flags&64 == 0 { // (with warnings off: what follows the table is not a row)
				// all rows of the table have the same number of visible characters
				lines := strings.Split(strings.Trim(stripSGR(res.Out), "\n"), "\n") // blank framing lines are not rows
				for i, l := range lines {
					if utf8.RuneCountInString(l) != utf8.RuneCountInString(lines[0]) {
						return out, fmt.Errorf("%s under theme %s: row %d has %d visible characters, row 0 has %d\noutput:\n%s", name, theme, i, utf8.RuneCountInString(l), utf8.RuneCountInString(lines[0]), stripSGR(res.Out))
					}
				}
			}
		}
	}
	// NO_COLOR through the configuration layer
	cfg, cerr := app.NewConfig(app.FromDeterminedValues{NumCpus: 1}, app.FromEnvVars{GetVar: func(k string) string {
		if k == "NO_COLOR" {
			return "1"
		}
		return ""
	}}, app.FromConfigFile{FileContents: "colour_scheme = dark\n"})
	if cerr != nil {
		return out, fmt.Errorf("harness: %v", cerr)
	}
	hn := newInlineHarness(now, text, 1, cfg.ColourScheme.Value())
	for name, cmd := range c18Commands(c, false) {
		res := hn.Run(cmd)
		if !hasESC && strings.Contains(res.Out, "\x1b") {
			return out, fmt.Errorf("%s with NO_COLOR set prints an escape sequence", name)
		}
		if stripSGR(res.Out) != stripSGR(plainOut[name]) {
			return out, fmt.Errorf("%s with NO_COLOR set differs from --no-style", name)
		}
	}
	nonASCII := false
	for i := 0; i < len(text); i++ {
		if text[i] >= 0x80 {
			nonASCII = true
		}
	}
	out.NonTrivial = sawSGR && nonASCII
	if hasESC {
		out.Label("input-contains-ESC")
	}
	return out, nil
}

func TestC18(t *testing.T) {
	Run(t, Prop[caseC18]{ID: "C18", Gen: genC18, Check: checkC18})
}
