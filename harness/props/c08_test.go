package props

import (
	"fmt"
	"testing"

	"github.com/jotaen/klog/klog"
	"github.com/jotaen/klog/klog/app"
	"github.com/jotaen/klog/klog/parser"
	"github.com/jotaen/klog/klog/parser/reconciling"
	"github.com/jotaen/klog/klog/parser/txt"
	"pgregory.net/rapid"
	"verifharness/evid"
	"verifharness/gen"
	"verifharness/model"
)

// C08 — reading a file loses nothing: blocks and lines reproduce the text exactly.

type caseC08 struct {
	Doc     model.Doc
	Layout  model.Layout
	Workers int
}

func genC08(t *rapid.T, _ *evid.Rec) caseC08 {
	o := gen.Opts{AllowMany: true, Controls: true, InvalidUTF8: true, KeepTrailingCR: true, TabSeparators: true}
	d := gen.Doc(t, o)
	return caseC08{Doc: d, Layout: gen.Layout(t, len(d.Records)), Workers: rapid.IntRange(2, 9).Draw(t, "workers")}
}

func checkBlocks(text string, lines []model.LineInfo, nRecords int, blocks []txt.Block, records []klog.Record, engine string) error {
	if len(blocks) != len(records) {
		return fmt.Errorf("%s: %d blocks but %d records", engine, len(blocks), len(records))
	}
	if len(blocks) != nRecords {
		return fmt.Errorf("%s: %d blocks for %d records in the text", engine, len(blocks), nRecords)
	}
	own := model.SplitLines(text)
	pos := 0
	concat := ""
	for bi, b := range blocks {
		if got := b.OverallLineIndex(0); got != pos {
			return fmt.Errorf("%s: block %d starts at line index %d, expected %d", engine, bi, got, pos)
		}
		// shape: blank* significant+ blank*
		phase := 0
		sigCount := 0
		for li, l := range b.Lines() {
			concat += l.Original()
			if pos >= len(own) {
				return fmt.Errorf("%s: block %d has more lines than the text", engine, bi)
			}
			if l.Text != own[pos].Text || l.LineEnding != own[pos].EOL {
				return fmt.Errorf("%s: block %d line %d is %q+%q, text has %q+%q", engine, bi, li, l.Text, l.LineEnding, own[pos].Text, own[pos].EOL)
			}
			blank := model.IsBlankST(l.Text)
			switch {
			case phase == 0 && !blank:
				phase = 1
			case phase == 1 && blank:
				phase = 2
			case phase == 2 && !blank:
				return fmt.Errorf("%s: block %d contains two runs of significant lines", engine, bi)
			}
			if phase == 0 && bi > 0 {
				return fmt.Errorf("%s: block %d (not the first) starts with a blank line", engine, bi)
			}
			if !blank {
				sigCount++
				if lines != nil && pos < len(lines) && lines[pos].Rec != bi {
					return fmt.Errorf("%s: block %d contains line %d of record %d", engine, bi, pos, lines[pos].Rec)
				}
			}
			pos++
		}
		if phase == 0 {
			return fmt.Errorf("%s: block %d has no significant line", engine, bi)
		}
		sig, head, tail := b.SignificantLines()
		if len(sig) != sigCount || head+len(sig)+tail != len(b.Lines()) {
			return fmt.Errorf("%s: block %d SignificantLines() = %d,%d,%d of %d lines (%d significant)", engine, bi, len(sig), head, tail, len(b.Lines()), sigCount)
		}
		// one record's lines: headline + summary lines + entry lines
		want := 1 + len(records[bi].Summary().Lines())
		for _, e := range records[bi].Entries() {
			n := len(e.Summary().Lines())
			if n == 0 {
				n = 1
			}
			want += n
		}
		if sigCount != want {
			return fmt.Errorf("%s: block %d has %d significant lines, its record accounts for %d", engine, bi, sigCount, want)
		}
	}
	if concat != text {
		return fmt.Errorf("%s: concatenated block lines differ from the input (%d vs %d bytes)", engine, len(concat), len(text))
	}
	if pos != len(own) {
		return fmt.Errorf("%s: blocks cover %d of %d lines", engine, pos, len(own))
	}
	return nil
}

func checkC08(c caseC08) (Outcome, error) {
	var out Outcome
	text, lines := model.Render(c.Doc, c.Layout)
	engines := []struct {
		name string
		p    parser.Parser
	}{{"serial", parser.NewSerialParser()}, {fmt.Sprintf("parallel(%d)", c.Workers), parser.NewParallelParser(c.Workers)}}
	for _, e := range engines {
		records, blocks, errs := e.p.Parse(text)
		if errs != nil {
			out.Label("rejected-by-parser") // a C01 matter; nothing to check here
			return out, nil
		}
		hasSignificant := false
		for _, l := range model.SplitLines(text) {
			if !model.IsBlankST(l.Text) {
				hasSignificant = true
			}
		}
		if (len(blocks) == 0) != !hasSignificant {
			return out, fmt.Errorf("%s: %d blocks, but text has significant lines: %v", e.name, len(blocks), hasSignificant)
		}
		if !hasSignificant {
			out.Label("blank-only-text")
			continue
		}
		if err := checkBlocks(text, lines, len(c.Doc.Records), blocks, records, e.name); err != nil {
			return out, err
		}
		// A reconcile that changes nothing writes back the identical text.
		seen := map[int]bool{}
		for ri, r := range c.Doc.Records {
			if seen[r.Date.Days()] || ri > 6 {
				continue
			}
			seen[r.Date.Days()] = true
			d, derr := klog.NewDate(r.Date.Y, r.Date.M, r.Date.D)
			if derr != nil {
				return out, fmt.Errorf("cannot construct date %v", r.Date)
			}
			res, aerr := app.ApplyReconciler(records, blocks, []reconciling.Creator{reconciling.NewReconcilerAtRecord(d)})
			if aerr != nil {
				return out, fmt.Errorf("%s: no-op reconcile at %s failed: %s (%s)", e.name, r.Date.Lit(), aerr.Error(), aerr.Details())
			}
			if res.AllSerialised != text {
				return out, fmt.Errorf("%s: no-op reconcile at %s changed the text:\n%q\n->\n%q", e.name, r.Date.Lit(), text, res.AllSerialised)
			}
		}
	}
	// The same through the real context and a real file: the bytes on disk after a mutating
	// operation that changes nothing are the bytes that were there before.
	if len(c.Doc.Records) > 0 {
		h := newHarness(goTime(model.DaysFromCivil(2024, 5, 5), 600), "")
		defer h.Close()
		file := h.WriteFile("noop.klg", text)
		r0 := c.Doc.Records[len(c.Doc.Records)/2].Date
		if d, derr := klog.NewDate(r0.Y, r0.M, r0.D); derr == nil {
			_, rerr := h.Ctx().ReconcileFile(app.FileOrBookmarkName(file), []reconciling.Creator{reconciling.NewReconcilerAtRecord(d)},
				func(*reconciling.Reconciler) error { return nil })
			if rerr != nil {
				return out, fmt.Errorf("no-op ReconcileFile at %s failed: %s (%s)", r0.Lit(), rerr.Error(), rerr.Details())
			}
			if after, _ := h.ReadFile("noop.klg"); after != text {
				return out, fmt.Errorf("a mutating operation that changes nothing wrote back a different file:\n%q\n->\n%q", text, after)
			}
			out.Label("noop-through-real-file")
		}
	}
	mixed, wsBlank := false, false
	eols := map[string]bool{}
	for _, l := range lines {
		if l.EOL != "" {
			eols[l.EOL] = true
		}
		if l.Role == model.RoleBlank && l.Text != "" {
			wsBlank = true
		}
	}
	mixed = len(eols) > 1
	out.NonTrivial = len(c.Doc.Records) >= 2 && (mixed || !c.Layout.FinalEOL || wsBlank)
	if mixed {
		out.Label("mixed-eol")
	}
	if !c.Layout.FinalEOL {
		out.Label("no-final-eol")
	}
	if wsBlank {
		out.Label("whitespace-blank-lines")
	}
	if len(c.Doc.Records) == 0 {
		out.Label("no-records")
	}
	return out, nil
}

func TestC08(t *testing.T) {
	Run(t, Prop[caseC08]{ID: "C08", Gen: genC08, Check: checkC08})
}
