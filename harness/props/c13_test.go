package props

import (
	"fmt"
	"strings"
	"testing"

	"github.com/jotaen/klog/klog"
	"github.com/jotaen/klog/klog/app"
	"github.com/jotaen/klog/klog/app/cli"
	"github.com/jotaen/klog/klog/app/cli/util"
	"github.com/jotaen/klog/klog/parser"
	"github.com/jotaen/klog/klog/service"
	"github.com/jotaen/klog/klog/service/period"
	"pgregory.net/rapid"
	"verifharness/evid"
	"verifharness/gen"
	"verifharness/model"
)

// C13 — filters and sorting select exactly the matching data and never alter it.

type queryC13 struct {
	DateKind string // "", date, since-until, after-before, period, today, yesterday, tomorrow, this-week, last-week, this-month, …
	A, B     *model.Date
	Period   string
	Tags     []string // as typed: "foo", "#foo", "foo=bar", `foo="x y"`
	Type     string   // "", range, open-range, duration, duration-positive, duration-negative
	Sort     string
}

type caseC13 struct {
	Doc    model.Doc
	Layout model.Layout
	Env    model.Env
	Query  queryC13
}

var c13TagPool = []string{"tag", "#tag", "Tag", "work", "#work", "home-office", "a_b", "読む", "ü", "tag=v", "tag=V", "#tag=1-2", "tag=\"a b\"", "tag='a b'", "ticket=891", "p=x", "nomatch", "work=1", "call=Liz", "call=\"'Liz'\"", "call='\"Liz\"'", "tag='say \"hi\"'", "tag=\"it's\"", "size='5\"'", "who", "Straße", "STRASSE", "ǆ"}
var c13Shortcuts = []string{"today", "yesterday", "tomorrow", "this-week", "last-week", "this-month", "last-month", "this-quarter", "last-quarter", "this-year", "last-year"}

func genC13(t *rapid.T, _ *evid.Rec) caseC13 {
	c := caseC13{}
	base := gen.Day(t, "base")
	if base < model.MinDay+800 {
		base = model.MinDay + 800
	}
	if base > model.MaxDay-800 {
		base = model.MaxDay - 800
	}
	c.Env = model.Env{NowDay: base + rapid.IntRange(-3, 3).Draw(t, "nowOff"), NowSec: rapid.IntRange(0, 86399).Draw(t, "nowSec")}
	span := rapid.SampledFrom([]int{3, 10, 40, 120, 400}).Draw(t, "span")
	c.Doc = gen.Doc(t, gen.Opts{MaxRecords: 8, AllowMany: true, NearDay: base, NearSpan: span, MaxEntries: 4})
	c.Layout = gen.Layout(t, len(c.Doc.Records))
	q := &c.Query
	someDate := func(label string) *model.Date {
		var d model.Date
		if len(c.Doc.Records) > 0 && rapid.IntRange(0, 3).Draw(t, label+"FromRec") != 0 {
			d = c.Doc.Records[rapid.IntRange(0, len(c.Doc.Records)-1).Draw(t, label+"Rec")].Date
			d = model.DateOfDays(d.Days()+rapid.SampledFrom([]int{0, 0, -1, 1}).Draw(t, label+"Delta"), false)
		} else {
			d = model.DateOfDays(base+rapid.IntRange(-span, span).Draw(t, label+"Off"), false)
		}
		return &d
	}
	switch rapid.IntRange(0, 7).Draw(t, "dateKind") {
	case 0:
	case 1:
		q.DateKind, q.A = "date", someDate("d")
	case 2:
		q.DateKind = "since-until"
		if rapid.IntRange(0, 2).Draw(t, "hasSince") != 0 {
			q.A = someDate("since")
		}
		if rapid.IntRange(0, 2).Draw(t, "hasUntil") != 0 {
			q.B = someDate("until")
		}
	case 3:
		q.DateKind = "after-before"
		if rapid.IntRange(0, 2).Draw(t, "hasAfter") != 0 {
			q.A = someDate("after")
		}
		if rapid.IntRange(0, 2).Draw(t, "hasBefore") != 0 {
			q.B = someDate("before")
		}
	case 4:
		q.DateKind = "period"
		d := someDate("p")
		w, wy := model.ISOWeek(d.Y, d.M, d.D)
		q.Period = rapid.SampledFrom([]string{
			fmt.Sprintf("%04d", d.Y), fmt.Sprintf("%04d-%02d", d.Y, d.M), fmt.Sprintf("%04d-Q%d", d.Y, model.Quarter(d.M)),
			fmt.Sprintf("%04d-W%02d", wy, w), fmt.Sprintf("%04d-W%d", wy, w),
		}).Draw(t, "period")
	default:
		q.DateKind = rapid.SampledFrom(c13Shortcuts).Draw(t, "shortcut")
	}
	for i, n := 0, rapid.SampledFrom([]int{0, 0, 1, 1, 2}).Draw(t, "nTags"); i < n; i++ {
		q.Tags = append(q.Tags, rapid.SampledFrom(c13TagPool).Draw(t, "qTag"))
	}
	q.Type = rapid.SampledFrom([]string{"", "", "", "range", "open-range", "duration", "duration-positive", "duration-negative"}).Draw(t, "type")
	q.Sort = rapid.SampledFrom([]string{"", "", "asc", "desc"}).Draw(t, "sort")
	if q.Type == "duration-positive" || q.Type == "duration-negative" {
		// whether a zero duration is positive is not specified: avoid zero durations
		for ri := range c.Doc.Records {
			for ei := range c.Doc.Records[ri].Entries {
				e := &c.Doc.Records[ri].Entries[ei]
				if e.Kind == model.KDuration && e.Dur.Mins == 0 {
					e.Dur = model.Duration{Mins: 1, Lit: "1m"}
				}
			}
		}
	}
	return c
}

func queryTag(s string) (model.Tag, bool) {
	if !strings.HasPrefix(s, "#") {
		s = "#" + s
	}
	ts, unsure := model.ScanTags(s)
	if unsure || len(ts) != 1 {
		return model.Tag{}, false
	}
	return ts[0], true
}

// refDateRange returns the inclusive day range [lo, hi] selected by the date clause.
func refDateRange(q queryC13, today int) (lo, hi int, ok bool) {
	lo, hi = -1<<40, 1<<40
	switch q.DateKind {
	case "":
	case "date":
		lo, hi = q.A.Days(), q.A.Days()
	case "since-until":
		if q.A != nil {
			lo = q.A.Days()
		}
		if q.B != nil {
			hi = q.B.Days()
		}
	case "after-before":
		if q.A != nil {
			lo = q.A.Days() + 1
		}
		if q.B != nil {
			hi = q.B.Days() - 1
		}
	case "period":
		s, u, valid, skip := refPattern(q.Period)
		if !valid || skip {
			return 0, 0, false
		}
		lo, hi = s, u
	case "today":
		lo, hi = today, today
	case "yesterday":
		lo, hi = today-1, today-1
	case "tomorrow":
		lo, hi = today+1, today+1
	case "this-week":
		lo, hi = refWeek(today)
	case "last-week":
		s, _ := refWeek(today)
		lo, hi = refWeek(s - 1)
	case "this-month":
		lo, hi = refMonth(today)
	case "last-month":
		s, _ := refMonth(today)
		lo, hi = refMonth(s - 1)
	case "this-quarter":
		lo, hi = refQuarter(today)
	case "last-quarter":
		s, _ := refQuarter(today)
		lo, hi = refQuarter(s - 1)
	case "this-year":
		lo, hi = refYear(today)
	case "last-year":
		s, _ := refYear(today)
		lo, hi = refYear(s - 1)
	}
	return lo, hi, true
}

func buildFilterArgs(q queryC13) (util.FilterArgs, bool) {
	f := util.FilterArgs{}
	switch q.DateKind {
	case "date":
		f.Date = klogDate(*q.A)
	case "since-until":
		if q.A != nil {
			f.Since = klogDate(*q.A)
		}
		if q.B != nil {
			f.Until = klogDate(*q.B)
		}
	case "after-before":
		if q.A != nil {
			f.After = klogDate(*q.A)
		}
		if q.B != nil {
			f.Before = klogDate(*q.B)
		}
	case "period":
		p, err := period.NewPeriodFromPatternString(q.Period)
		if err != nil {
			return f, false
		}
		f.Period = p
	case "today":
		f.Today = true
	case "yesterday":
		f.Yesterday = true
	case "tomorrow":
		f.Tomorrow = true
	case "this-week":
		f.ThisWeek = true
	case "last-week":
		f.LastWeekAlias = true
	case "this-month":
		f.ThisMonthAlias = true
	case "last-month":
		f.LastMonth = true
	case "this-quarter":
		f.ThisQuarter = true
	case "last-quarter":
		f.LastQuarter = true
	case "this-year":
		f.ThisYear = true
	case "last-year":
		f.LastYear = true
	}
	for _, s := range q.Tags {
		t, err := klog.NewTagFromString(s)
		if err != nil {
			return f, false
		}
		f.Tags = append(f.Tags, t)
	}
	if q.Type != "" {
		f.EntryType = service.EntryType(strings.ReplaceAll(strings.ToUpper(q.Type), "-", "_"))
	}
	return f, true
}

func typeMatches(e model.Entry, typ string) bool {
	switch typ {
	case "":
		return true
	case "range":
		return e.Kind == model.KRange
	case "open-range":
		return e.Kind == model.KOpen
	case "duration":
		return e.Kind == model.KDuration
	case "duration-positive":
		return e.Kind == model.KDuration && e.Dur.Mins > 0
	case "duration-negative":
		return e.Kind == model.KDuration && e.Dur.Mins < 0
	}
	return false
}

// refSelect is the reference predicate: for every record whether it is selected and which of
// its entries survive (indices). unsure is set if a summary contains `##`.
func refSelect(d model.Doc, q queryC13, today int, useDate, useTags, useType bool) (sel []bool, entries [][]int, unsure bool, ok bool) {
	lo, hi, okRange := refDateRange(q, today)
	if !okRange {
		return nil, nil, false, false
	}
	var qtags []model.Tag
	for _, s := range q.Tags {
		t, okT := queryTag(s)
		if !okT {
			return nil, nil, false, false
		}
		qtags = append(qtags, t)
	}
	sel = make([]bool, len(d.Records))
	entries = make([][]int, len(d.Records))
	for ri, r := range d.Records {
		if useDate && (r.Date.Days() < lo || r.Date.Days() > hi) {
			continue
		}
		rtags, u1 := model.TagsOfLines(model.Strs(r.Summary))
		unsure = unsure || u1
		recordLevel := true
		for _, qt := range qtags {
			if !model.TagSetContains(rtags, qt) {
				recordLevel = false
			}
		}
		var keep []int
		for ei, e := range r.Entries {
			okE := true
			if useTags && len(qtags) > 0 && !recordLevel {
				etags, u2 := model.TagsOfLines(model.Strs(e.Summary))
				unsure = unsure || u2
				all := append(append([]model.Tag{}, rtags...), etags...)
				for _, qt := range qtags {
					if !model.TagSetContains(all, qt) {
						okE = false
					}
				}
			}
			if useType && !typeMatches(e, q.Type) {
				okE = false
			}
			if okE {
				keep = append(keep, ei)
			}
		}
		tagActive := useTags && len(qtags) > 0
		typeActive := useType && q.Type != ""
		switch {
		case !tagActive && !typeActive:
			sel[ri] = true
		case tagActive && !typeActive:
			sel[ri] = recordLevel || len(keep) > 0
		default:
			// a type filter (alone or after the tag filter) needs at least one surviving entry;
			// with a tag filter that matches nowhere the record is dropped anyway
			sel[ri] = len(keep) > 0
		}
		entries[ri] = keep
	}
	return sel, entries, unsure, true
}

func entryDump(e *klog.Entry) string {
	kind, a, b := entryValue(e)
	return fmt.Sprintf("%s|%d|%d|%q", kind, a, b, e.Summary().Lines())
}

func checkC13(c caseC13) (Outcome, error) {
	var out Outcome
	text, _ := model.Render(c.Doc, c.Layout)
	now := envTime(c.Env)
	args, okArgs := buildFilterArgs(c.Query)
	if !okArgs {
		out.Label("query-not-expressible")
		return out, nil
	}
	run := func(a util.FilterArgs) ([]klog.Record, []klog.Record, error) {
		records, _, errs := parser.NewSerialParser().Parse(text)
		if errs != nil {
			return nil, nil, fmt.Errorf("rejected")
		}
		return records, a.ApplyFilter(now, records), nil
	}
	original, _, perr := run(util.FilterArgs{})
	if perr != nil {
		out.Label("rejected-by-parser")
		return out, nil
	}
	origDump := make([][]string, len(original))
	for i, r := range original {
		for _, e := range r.Entries() {
			origDump[i] = append(origDump[i], entryDump(&e))
		}
	}
	where := func() string {
		return fmt.Sprintf("query %+v (A=%v B=%v) at %s\ntext: %s", c.Query, c.Query.A, c.Query.B, envString(c.Env), quoteShort(text))
	}
	// compare one filter invocation with the reference selection
	compare := func(a util.FilterArgs, useDate, useTags, useType bool, what string) ([]bool, [][]int, error) {
		sel, ents, unsure, ok := refSelect(c.Doc, c.Query, c.Env.NowDay, useDate, useTags, useType)
		if !ok {
			return nil, nil, nil
		}
		parsed, got, _ := run(a)
		if unsure {
			return sel, ents, nil
		}
		_ = parsed // the returned records are matched by position and content, not by Go identity
		gi := 0
		for ri := range c.Doc.Records {
			if !sel[ri] {
				continue
			}
			if gi >= len(got) {
				return nil, nil, fmt.Errorf("%s: record %d (%s) matches but is missing from the result (%d records returned)", what, ri, c.Doc.Records[ri].Date.Lit(), len(got))
			}
			g := got[gi]
			if g.Date().ToString() != c.Doc.Records[ri].Date.Lit() || g.ShouldTotal().InMinutes() != c.Doc.Records[ri].ShouldMins() ||
				fmt.Sprintf("%q", g.Summary().Lines()) != fmt.Sprintf("%q", model.Strs(c.Doc.Records[ri].Summary)) {
				return nil, nil, fmt.Errorf("%s: result position %d is %s %q, expected record %d (%s) unaltered", what, gi, g.Date().ToString(), g.Summary().Lines(), ri, c.Doc.Records[ri].Date.Lit())
			}
			ge := g.Entries()
			if len(ge) != len(ents[ri]) {
				return nil, nil, fmt.Errorf("%s: record %d (%s) keeps %d entries, expected entries %v", what, ri, c.Doc.Records[ri].Date.Lit(), len(ge), ents[ri])
			}
			for k, ei := range ents[ri] {
				if entryDump(&ge[k]) != origDump[ri][ei] {
					return nil, nil, fmt.Errorf("%s: record %d entry %d is %s, expected original entry %d: %s", what, ri, k, entryDump(&ge[k]), ei, origDump[ri][ei])
				}
			}
			gi++
		}
		if gi != len(got) {
			return nil, nil, fmt.Errorf("%s: %d records returned, %d match", what, len(got), gi)
		}
		return sel, ents, nil
	}
	selAll, entsAll, err := compare(args, true, true, true, "combined query")
	if err != nil {
		return out, fmt.Errorf("%v\n%s", err, where())
	}
	if selAll == nil {
		out.Label("query-not-expressible")
		return out, nil
	}
	// the same query through `klog json` (filter and sort as the command applies them)
	{
		h := newInlineHarness(now, text, 1, "no_colour")
		jargs, _ := buildFilterArgs(c.Query)
		jres := h.RunJson(nil, false, false, jargs, c.Query.Sort)
		if jres.Err != nil {
			return out, fmt.Errorf("klog json with the query failed: %s\n%s", jres.Err.Error(), where())
		}
		v, jerr := model.ParseJSON(jres.Out)
		if jerr != nil {
			return out, fmt.Errorf("klog json output malformed: %v", jerr)
		}
		recsV, _ := v.(*model.JObject).Get("records")
		arr, _ := recsV.([]any)
		_, _, unsure, _ := refSelect(c.Doc, c.Query, c.Env.NowDay, true, true, true)
		if !unsure {
			type row struct {
				date string
				n    int
			}
			var wantRows []row
			for ri := range c.Doc.Records {
				if selAll[ri] {
					wantRows = append(wantRows, row{c.Doc.Records[ri].Date.Lit(), len(entsAll[ri])})
				}
			}
			var gotRows []row
			for _, x := range arr {
				o := x.(*model.JObject)
				d, _ := jStr(o, "date")
				es, _ := o.Get("entries")
				ea, _ := es.([]any)
				gotRows = append(gotRows, row{d, len(ea)})
			}
			if c.Query.Sort != "" {
				key := func(r row) string { return fmt.Sprintf("%s#%d", strings.ReplaceAll(r.date, "/", "-"), r.n) }
				sortRows := func(rs []row) {
					for i := 1; i < len(rs); i++ {
						for j := i; j > 0 && key(rs[j]) < key(rs[j-1]); j-- {
							rs[j], rs[j-1] = rs[j-1], rs[j]
						}
					}
				}
				// monotone by date, then compare as multisets
				for i := 1; i < len(gotRows); i++ {
					a, b := strings.ReplaceAll(gotRows[i-1].date, "/", "-"), strings.ReplaceAll(gotRows[i].date, "/", "-")
					if (c.Query.Sort == "asc" && a > b) || (c.Query.Sort == "desc" && a < b) {
						return out, fmt.Errorf("klog json --sort %s: %s before %s\n%s", c.Query.Sort, a, b, where())
					}
				}
				for i := range gotRows {
					gotRows[i].date = strings.ReplaceAll(gotRows[i].date, "/", "-")
				}
				for i := range wantRows {
					wantRows[i].date = strings.ReplaceAll(wantRows[i].date, "/", "-")
				}
				sortRows(gotRows)
				sortRows(wantRows)
			}
			for i := range gotRows { // which separator `klog json` prints is not C13's matter
				gotRows[i].date = strings.ReplaceAll(gotRows[i].date, "/", "-")
			}
			for i := range wantRows {
				wantRows[i].date = strings.ReplaceAll(wantRows[i].date, "/", "-")
			}
			if fmt.Sprint(gotRows) != fmt.Sprint(wantRows) {
				return out, fmt.Errorf("klog json with the query lists (date, #entries) %v, the reference selection is %v\n%s", gotRows, wantRows, where())
			}
		}
	}
	// every command that takes the filter flags applies them: its output on the file with the
	// query equals its output, without a query, on the file reduced to the reference selection
	if _, _, unsure, _ := refSelect(c.Doc, c.Query, c.Env.NowDay, true, true, true); !unsure {
		reduced := model.Doc{}
		for ri, r := range c.Doc.Records {
			if !selAll[ri] {
				continue
			}
			nr := r
			nr.Entries = nil
			for _, ei := range entsAll[ri] {
				nr.Entries = append(nr.Entries, r.Entries[ei])
			}
			reduced.Records = append(reduced.Records, nr)
		}
		reducedText, _ := model.Render(reduced, model.Layout{FinalEOL: true})
		hq := newInlineHarness(now, text, 1, "no_colour")
		hr := newInlineHarness(now, reducedText, 1, "no_colour")
		fargs, _ := buildFilterArgs(c.Query)
		noWarn, noStyle := util.WarnArgs{NoWarn: true}, util.NoStyleArgs{NoStyle: true}
		agg := []string{"day", "week", "month", "quarter", "year"}[((len(text)+c.Env.NowDay)%5+5)%5]
		pairs := []struct {
			name    string
			with    interface{ Run(app.Context) app.Error }
			without interface{ Run(app.Context) app.Error }
		}{
			{"print", &cli.Print{FilterArgs: fargs, WarnArgs: noWarn, NoStyleArgs: noStyle}, &cli.Print{WarnArgs: noWarn, NoStyleArgs: noStyle}},
			{"total --diff", &cli.Total{FilterArgs: fargs, DiffArgs: util.DiffArgs{Diff: true}, WarnArgs: noWarn, NoStyleArgs: noStyle}, &cli.Total{DiffArgs: util.DiffArgs{Diff: true}, WarnArgs: noWarn, NoStyleArgs: noStyle}},
			{"report --aggregate " + agg, &cli.Report{AggregateBy: agg, FilterArgs: fargs, WarnArgs: noWarn, NoStyleArgs: noStyle}, &cli.Report{AggregateBy: agg, WarnArgs: noWarn, NoStyleArgs: noStyle}},
			{"tags --values --count", &cli.Tags{Values: true, Count: true, FilterArgs: fargs, WarnArgs: noWarn, NoStyleArgs: noStyle}, &cli.Tags{Values: true, Count: true, WarnArgs: noWarn, NoStyleArgs: noStyle}},
		}
		for _, pr := range pairs {
			a, b := hq.Run(pr.with), hr.Run(pr.without)
			if (a.Err == nil) != (b.Err == nil) {
				return out, fmt.Errorf("klog %s: with the query err=%v, on the reduced file err=%v\n%s", pr.name, a.Err, b.Err, where())
			}
			if a.Err == nil && a.Out != b.Out {
				return out, fmt.Errorf("klog %s with the query differs from klog %s on the file reduced to the matching records and entries\n--- with query\n%s\n--- reduced file\n%s\nreduced text: %s\n%s", pr.name, pr.name, a.Out, b.Out, quoteShort(reducedText), where())
			}
		}
		out.Label("commands-apply-filter")
	}
	// single clauses and the conjunction law
	dateOnly, tagOnly, typeOnly := args, args, args
	dateOnly.Tags, dateOnly.EntryType = nil, ""
	tagOnly = util.FilterArgs{Tags: args.Tags}
	typeOnly = util.FilterArgs{EntryType: args.EntryType}
	selD, _, err := compare(dateOnly, true, false, false, "date clause alone")
	if err != nil {
		return out, fmt.Errorf("%v\n%s", err, where())
	}
	selT, entsT, err := compare(tagOnly, false, true, false, "tag clause alone")
	if err != nil {
		return out, fmt.Errorf("%v\n%s", err, where())
	}
	selY, entsY, err := compare(typeOnly, false, false, true, "entry-type clause alone")
	if err != nil {
		return out, fmt.Errorf("%v\n%s", err, where())
	}
	_ = selD
	_ = selT
	_ = selY
	_ = entsT
	_ = entsY
	_ = entsAll
	// sorting: a date-monotone permutation of the same records
	if c.Query.Sort != "" {
		_, got, _ := run(args)
		sorted := (&util.SortArgs{Sort: c.Query.Sort}).ApplySort(got)
		if len(sorted) != len(got) {
			return out, fmt.Errorf("--sort changes the number of records\n%s", where())
		}
		key := func(r klog.Record) string {
			k := fmt.Sprintf("%s|%d|%q", r.Date().ToString(), r.ShouldTotal().InMinutes(), r.Summary().Lines())
			for _, e := range r.Entries() {
				k += "|" + entryDump(&e)
			}
			return k
		}
		seen := map[string]int{}
		for _, r := range got {
			seen[key(r)]++
		}
		for i, r := range sorted {
			if seen[key(r)] == 0 {
				return out, fmt.Errorf("--sort returns a record that was not in the input\n%s", where())
			}
			seen[key(r)]--
			if i > 0 {
				a, b := docDay(sorted[i-1]), docDay(r)
				if (c.Query.Sort == "asc" && a > b) || (c.Query.Sort == "desc" && a < b) {
					return out, fmt.Errorf("--sort %s: records %d and %d are out of order\n%s", c.Query.Sort, i-1, i, where())
				}
			}
		}
		out.Label("sorted")
	}
	nSel, partial := 0, false
	for ri := range selAll {
		if selAll[ri] {
			nSel++
			if len(entsAll[ri]) < len(c.Doc.Records[ri].Entries) {
				partial = true
			}
		}
	}
	out.NonTrivial = (nSel > 0 && nSel < len(c.Doc.Records)) || partial
	out.Label("date:" + c.Query.DateKind)
	if len(c.Query.Tags) > 0 {
		out.Label("with-tags")
	}
	if c.Query.Type != "" {
		out.Label("with-type")
	}
	if partial {
		out.Label("record-partially-reduced")
	}
	return out, nil
}

func TestC13(t *testing.T) {
	Run(t, Prop[caseC13]{ID: "C13", Gen: genC13, Check: checkC13})
}
