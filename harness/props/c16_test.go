package props

import (
	"fmt"
	"strings"
	"testing"

	"github.com/jotaen/klog/klog"
	"verifharness/evid"
	"verifharness/model"
)

// C16 — dates, times, durations and ranges: exact text round trip and exact arithmetic.

type caseC16 struct {
	Part string // time-string, time-value, pair, plus, date-string, duration-string
	S    string `json:",omitempty"`
	A    int    `json:",omitempty"`
	B    int    `json:",omitempty"`
	F    bool   `json:",omitempty"`
}

func klogTimeOf(off int, is12h bool) (klog.Time, error) {
	return klog.NewTimeFromString(model.CanonTime(off, is12h))
}

func timeFacts(t klog.Time) (int, bool) {
	return t.MidnightOffset().InMinutes(), !t.Format().Use24HourClock
}

func checkC16(c caseC16) (Outcome, error) {
	var out Outcome
	switch c.Part {
	case "time-string":
		want, wok := model.ScanTime(c.S)
		got, err := klog.NewTimeFromString(c.S)
		if (err == nil) != wok {
			return out, fmt.Errorf("time literal %q: klog accepts=%v, specification accepts=%v", c.S, err == nil, wok)
		}
		if !wok {
			out.Label("time-rejected")
			return out, nil
		}
		off, is12 := timeFacts(got)
		if off != want.Off || is12 != want.Is12h {
			return out, fmt.Errorf("time literal %q denotes offset %d (12h=%v), klog reads %d (12h=%v)", c.S, want.Off, want.Is12h, off, is12)
		}
		canon := model.CanonTime(want.Off, want.Is12h)
		if got.ToString() != canon {
			return out, fmt.Errorf("time literal %q is written back as %q, want %q", c.S, got.ToString(), canon)
		}
		back, err2 := klog.NewTimeFromString(got.ToString())
		if err2 != nil {
			return out, fmt.Errorf("%q is written as %q, which klog does not read back", c.S, got.ToString())
		}
		if o2, f2 := timeFacts(back); o2 != off || f2 != is12 || back.ToString() != got.ToString() || !back.IsEqualTo(got) {
			return out, fmt.Errorf("%q does not survive writing and reading back", c.S)
		}
		// equality exactly when the values agree
		same, _ := klogTimeOf(want.Off, false)
		if !got.IsEqualTo(same) || !same.IsEqualTo(got) {
			return out, fmt.Errorf("%q and %q denote the same time but are not equal", c.S, same.ToString())
		}
		for _, d := range []int{-1, 1, -1440, 1440, -2880, 2880, -720, 720, -1439, 1439} {
			if o := want.Off + d; o >= -1440 && o < 2880 {
				other, _ := klogTimeOf(o, want.Is12h)
				if got.IsEqualTo(other) {
					return out, fmt.Errorf("%q and %q are reported equal", c.S, other.ToString())
				}
				if got.IsAfterOrEqual(other) != (want.Off >= o) {
					return out, fmt.Errorf("%q IsAfterOrEqual %q = %v", c.S, other.ToString(), got.IsAfterOrEqual(other))
				}
			}
		}
		h, m := want.Hour(), want.Minute()
		if got.Hour() != h || got.Minute() != m || got.IsYesterday() != (want.Shift() < 0) || got.IsTomorrow() != (want.Shift() > 0) || got.IsToday() != (want.Shift() == 0) {
			return out, fmt.Errorf("%q: hour/minute/shift accessors disagree with offset %d", c.S, want.Off)
		}
		out.NonTrivial = h == 0 || h == 12 || m == 59 || want.Shift() != 0 || c.S[0] == '<' || want.Off == 1440
		out.Label("time-accepted")
		return out, nil

	case "time-value":
		t, err := klogTimeOf(c.A, c.F)
		if err != nil {
			return out, fmt.Errorf("canonical literal %q of offset %d is rejected", model.CanonTime(c.A, c.F), c.A)
		}
		if off, is12 := timeFacts(t); off != c.A || is12 != c.F || t.ToString() != model.CanonTime(c.A, c.F) {
			return out, fmt.Errorf("offset %d (12h=%v) round-trips to %d (12h=%v) %q", c.A, c.F, off, is12, t.ToString())
		}
		other := t.ToStringWithFormat(klog.TimeFormat{Use24HourClock: c.F})
		if other != model.CanonTime(c.A, !c.F) {
			return out, fmt.Errorf("offset %d in the other notation is %q, want %q", c.A, other, model.CanonTime(c.A, !c.F))
		}
		out.NonTrivial = c.A < 0 || c.A >= 1440 || c.A%60 == 59
		return out, nil

	case "pair":
		s, _ := klogTimeOf(c.A, false)
		e, _ := klogTimeOf(c.B, c.F)
		r, err := klog.NewRange(s, e)
		if (err == nil) != (c.B >= c.A) {
			return out, fmt.Errorf("range %s - %s: accepted=%v, but end>=start is %v", s.ToString(), e.ToString(), err == nil, c.B >= c.A)
		}
		if err == nil && r.Duration().InMinutes() != c.B-c.A {
			return out, fmt.Errorf("range %s lasts %d minutes, want %d", r.ToString(), r.Duration().InMinutes(), c.B-c.A)
		}
		if s.IsEqualTo(e) != (c.A == c.B) || e.IsEqualTo(s) != (c.A == c.B) {
			return out, fmt.Errorf("%s IsEqualTo %s = %v, but the values are %d and %d", s.ToString(), e.ToString(), s.IsEqualTo(e), c.A, c.B)
		}
		if e.IsAfterOrEqual(s) != (c.B >= c.A) || s.IsAfterOrEqual(e) != (c.A >= c.B) {
			return out, fmt.Errorf("%s IsAfterOrEqual %s = %v, but the values are %d and %d", e.ToString(), s.ToString(), e.IsAfterOrEqual(s), c.B, c.A)
		}
		out.NonTrivial = (c.A < 0) != (c.B < 0) || (c.A >= 1440) != (c.B >= 1440) || c.A == c.B
		return out, nil

	case "plus":
		t, _ := klogTimeOf(c.A, c.F)
		res, err := t.Plus(klog.NewDuration(0, c.B))
		want := c.A + c.B
		ok := want >= -1440 && want < 2880
		if (err == nil) != ok {
			return out, fmt.Errorf("%s plus %d minutes: error=%v, but the result %d is representable=%v", t.ToString(), c.B, err, want, ok)
		}
		if ok {
			if off, is12 := timeFacts(res); off != want || is12 != c.F {
				return out, fmt.Errorf("%s plus %d minutes = %s (offset %d), want offset %d", t.ToString(), c.B, res.ToString(), off, want)
			}
		}
		out.NonTrivial = !ok || (want < 0) != (c.A < 0) || (want >= 1440) != (c.A >= 1440)
		return out, nil

	case "date-string":
		want, wok := model.ScanDate(c.S)
		got, err := klog.NewDateFromString(c.S)
		if (err == nil) != wok {
			return out, fmt.Errorf("date literal %q: klog accepts=%v, specification accepts=%v", c.S, err == nil, wok)
		}
		if !wok {
			out.Label("date-rejected")
			return out, nil
		}
		if got.Year() != want.Y || got.Month() != want.M || got.Day() != want.D || got.Format().UseDashes == want.Slash || got.ToString() != c.S {
			return out, fmt.Errorf("date literal %q is read as %s", c.S, got.ToString())
		}
		back, err2 := klog.NewDateFromString(got.ToString())
		if err2 != nil || !back.IsEqualTo(got) || back.ToString() != c.S {
			return out, fmt.Errorf("date %q does not survive writing and reading back", c.S)
		}
		out.NonTrivial = want.M == 2 || want.D >= 28 || want.D == 1 || want.M == 12 || want.M == 1
		out.Label("date-accepted")
		return out, nil

	case "duration-string":
		want, wok, fits := model.ScanDuration(c.S)
		if wok && !fits {
			out.Label("excluded:F2")
			return out, nil
		}
		got, err := klog.NewDurationFromString(c.S)
		if (err == nil) != wok {
			return out, fmt.Errorf("duration literal %q: klog accepts=%v, specification accepts=%v", c.S, err == nil, wok)
		}
		if !wok {
			out.Label("duration-rejected")
			return out, nil
		}
		if got.InMinutes() != want.Mins {
			return out, fmt.Errorf("duration literal %q denotes %d minutes, klog reads %d", c.S, want.Mins, got.InMinutes())
		}
		canon := model.CanonDuration(want.Mins, want.Plus, want.ZeroSign)
		if got.ToString() != canon {
			return out, fmt.Errorf("duration literal %q is written back as %q, want %q", c.S, got.ToString(), canon)
		}
		back, err2 := klog.NewDurationFromString(got.ToString())
		if err2 != nil || back.InMinutes() != want.Mins || back.ToString() != canon {
			return out, fmt.Errorf("duration %q (written %q) does not survive reading back", c.S, got.ToString())
		}
		out.NonTrivial = want.Mins == 0 || want.Mins%60 == 59 || want.Mins%60 == 0 || want.Plus
		out.Label("duration-accepted")
		return out, nil
	}
	return out, fmt.Errorf("unknown part %q", c.Part)
}

func eachC16(shard, shards int, ev *evid.Rec, emit func(caseC16) bool) {
	quick := !thorough()
	idx := 0
	mine := func() bool { idx++; return idx%shards == shard }
	// (a) all strings <?D{1,2}:DD(am|pm)?>?
	for _, pre := range []string{"", "<"} {
		for hd := 0; hd < 110; hd++ {
			hs := fmt.Sprintf("%d", hd)
			if hd >= 10 {
				hs = fmt.Sprintf("%02d", hd-10)
			}
			for m := 0; m < 100; m++ {
				for _, ap := range []string{"", "am", "pm"} {
					for _, suf := range []string{"", ">"} {
						if !mine() {
							continue
						}
						if !emit(caseC16{Part: "time-string", S: fmt.Sprintf("%s%s:%02d%s%s", pre, hs, m, ap, suf)}) {
							return
						}
					}
				}
			}
		}
	}
	// (b) all 4320 shifted times x both notations
	for off := -1440; off < 2880; off++ {
		for _, f := range []bool{false, true} {
			if mine() && !emit(caseC16{Part: "time-value", A: off, F: f}) {
				return
			}
		}
	}
	// (c) all pairs, (d) all times x all durations in [-2880, 2880]
	stride := 1
	if quick {
		stride = 5
	}
	for a := -1440; a < 2880; a++ {
		if !mine() {
			continue
		}
		for b := -1440 + (a+1440)%stride; b < 2880; b += stride {
			if !emit(caseC16{Part: "pair", A: a, B: b, F: (a+b)%2 == 0}) {
				return
			}
		}
		for _, dd := range []int{-2880, -1440, 0, 1440, 2880} {
			if b := a + dd; b >= -1440 && b < 2880 && stride > 1 {
				if !emit(caseC16{Part: "pair", A: a, B: b, F: a%2 == 0}) {
					return
				}
			}
		}
		for d := -2880 + (a+1440)%stride; d <= 2880; d += stride {
			if !emit(caseC16{Part: "plus", A: a, B: d, F: d%2 == 0}) {
				return
			}
		}
	}
	// (e) date strings
	for y := 0; y <= 9999; y++ {
		if quick && !(y%100 == 0 || y%9 == 1 || y == 9999 || y == 1 || (y >= 2019 && y <= 2025)) {
			continue
		}
		if !mine() {
			continue
		}
		for m := 0; m <= 13; m++ {
			for d := 0; d <= 32; d++ {
				for _, seps := range [][2]string{{"-", "-"}, {"/", "/"}, {"-", "/"}, {"/", "-"}} {
					if !emit(caseC16{Part: "date-string", S: fmt.Sprintf("%04d%s%02d%s%02d", y, seps[0], m, seps[1], d)}) {
						return
					}
				}
			}
		}
	}
	// (f) duration strings: sign x hours {absent, 0..120} x minutes {absent, 0..130} x leading zeros
	for _, sign := range []string{"", "+", "-"} {
		for h := -1; h <= 120; h++ {
			if !mine() {
				continue
			}
			for m := -1; m <= 130; m++ {
				for _, lz := range []string{"", "0"} {
					s := sign
					if h >= 0 {
						s += fmt.Sprintf("%s%dh", lz, h)
					}
					if m >= 0 {
						s += fmt.Sprintf("%s%dm", lz, m)
					}
					if !emit(caseC16{Part: "duration-string", S: s}) {
						return
					}
				}
			}
		}
	}
	// near misses: every single-character substitution, insertion and deletion of valid literals over
	// an alphabet of the characters a hand-written scanner or a lenient number parser could mistake
	// (signs, blanks, other digits scripts, wrong separators)
	if shard == 0 {
		alphabet := []string{"0", "1", "9", "+", "-", ":", " ", "\t", "a", "p", "m", "h", "<", ">", "/", ".", "_", "１", "٣", "x", "?", "!"}
		near := func(part string, bases []string) bool {
			seen := map[string]bool{}
			for _, b := range bases {
				rs := []rune(b)
				for i := 0; i <= len(rs); i++ {
					var variants []string
					for _, a := range alphabet {
						variants = append(variants, string(rs[:i])+a+string(rs[i:])) // insertion
						if i < len(rs) {
							variants = append(variants, string(rs[:i])+a+string(rs[i+1:])) // substitution
						}
					}
					if i < len(rs) {
						variants = append(variants, string(rs[:i])+string(rs[i+1:])) // deletion
					}
					for _, v := range variants {
						if seen[v] || v != strings.Trim(v, " \t") {
							continue // blanks around a literal: a trimming constructor is not against the property
						}
						seen[v] = true
						if !emit(caseC16{Part: part, S: v}) {
							return false
						}
					}
				}
			}
			return true
		}
		if !near("time-string", []string{"8:00", "9:05", "23:59", "0:00", "12:30pm", "1:05am", "<23:59", "0:00>", "<8:00am", "11:59pm>", "24:00", "<24:00"}) ||
			!near("date-string", []string{"2020-02-29", "2020/02/29", "0000-01-01", "9999-12-31", "1999-12-01"}) ||
			!near("duration-string", []string{"1h30m", "-45m", "+2h", "0m", "12h05m", "-1h1m", "90m"}) {
			return
		}
	}
	// a few more shapes around the edges
	if shard == 0 {
		for _, s := range []string{"", "h", "m", "1h1h", "1m1h", "1h 1m", "-", "+", "--1h", "1.5h", "1H", "5", "1h5", "9223372036854775807m", "-9223372036854775807m", "153722867280912930h7m", "00000000000000000000001h"} {
			if !emit(caseC16{Part: "duration-string", S: s}) {
				return
			}
		}
		for _, s := range []string{"", ":", "8", "8:0", "8:000", "008:00", "8:00am>", "<8:00am", "<8:00>", "8:00AM", "8:00a", "24:00", "<24:00", "24:00>", "12:00am", "12:00pm", "0:00am", "13:00am"} {
			if !emit(caseC16{Part: "time-string", S: s}) {
				return
			}
		}
		for _, s := range []string{"", "2020-1-1", "20-01-01", "2020-01-1", "02020-01-01", "2020.01.01", "2020-01-010", "２０２０-01-01", "0000-01-01", "9999-12-31", "0000-00-00"} {
			if !emit(caseC16{Part: "date-string", S: s}) {
				return
			}
		}
	}
	ev.SetExhaustive(!quick)
	if quick {
		ev.Note("quick tier: time strings, time values and duration strings exhaustive; pairs/plus with stride 5; dates for about 1200 sampled years incl. all century years")
	} else {
		ev.Note("thorough tier: every part enumerated completely (132 000 time strings, 4320 x 2 values, 4320^2 pairs, 4320 x 5761 additions, 18.5 M date strings, 96 k duration strings)")
	}
}

func TestC16(t *testing.T) {
	RunEnum(t, Enum[caseC16]{ID: "C16", Check: checkC16, Each: eachC16})
}
