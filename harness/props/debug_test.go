package props

import (
	"encoding/json"
	"fmt"
	"os"
	"testing"

	"github.com/jotaen/klog/klog/parser"
	"verifharness/evid"
	"verifharness/model"
)

// TestShow renders the document of a saved case (debug aid; not a check).
func TestShow(t *testing.T) {
	path := os.Getenv("VERIF_SHOW")
	if path == "" {
		t.Skip()
	}
	raw, _ := os.ReadFile(path)
	var f evid.Failure
	json.Unmarshal(raw, &f)
	var c struct {
		Doc     model.Doc
		Layout  model.Layout
		Workers int
		Text    *model.Text
	}
	json.Unmarshal(f.Case, &c)
	text, _ := model.Render(c.Doc, c.Layout)
	if c.Text != nil {
		text = string(*c.Text)
	}
	fmt.Printf("%q\n", text)
	_, bs, errs := parser.NewSerialParser().Parse(text)
	fmt.Println("serial blocks", len(bs), "errs", len(errs))
	for i, b := range bs {
		fmt.Println(i, b.OverallLineIndex(0), len(b.Lines()))
	}
	if c.Workers > 0 {
		_, bs, errs = parser.NewParallelParser(c.Workers).Parse(text)
		fmt.Println("parallel blocks", len(bs), "errs", len(errs))
		for i, b := range bs {
			fmt.Println(i, b.OverallLineIndex(0), len(b.Lines()))
		}
	}
}
