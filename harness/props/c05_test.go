package props

import (
	"fmt"
	"os"
	"strings"
	"testing"
	gotime "time"

	"github.com/jotaen/klog/klog/app"
	"github.com/jotaen/klog/klog/parser"
	"pgregory.net/rapid"
	"verifharness/evid"
	"verifharness/gen"
	"verifharness/model"
)

// C05 — a mutating command either leaves a valid file or leaves the file untouched.

type caseC05 struct {
	Text    model.Text
	Target  string `json:",omitempty"` // "" = the file; "dir" = a directory; "bookmark" = an unknown bookmark name
	Missing bool   // the target file does not exist
	Env     model.Env
	Cmd     model.Cmd
	ViaMain bool `json:",omitempty"` // through klog's real entry point (flag parsing, exit code mapping, real clock)
	// NoExclusions disables the exclusion predicate of known finding F3; only set in its witness.
	NoExclusions bool `json:",omitempty"`
}

var badEntryTexts = [][]string{{"hello"}, {"25:00-26:00"}, {"1h60m"}, {" 1h"}, {"\t1h"}, {"2020-01-01"}, {"8:00 - ?"}, {"9:00-8:00"}, {"1h", " "},
	{"8:00 -"}, {"-"}, {""}, {"#tag"}, {"1h", "ok", "　"}, {"24:00>"}, {"12:00am - ?"}, {"8:00 - ?>"}, {"1 h"}, {"１h"}}

func genC05(t *rapid.T, _ *evid.Rec) caseC05 {
	c := caseC05{Env: gen.Env(t, 0)}
	d := gen.Doc(t, gen.Opts{MaxRecords: 4, NearDay: c.Env.NowDay, NearSpan: 2, MaxEntries: 3, Controls: true, TabSeparators: true})
	if rapid.IntRange(0, 7).Draw(t, "edgeDates") == 0 {
		gen.EdgeDates(t, &d)
	}
	if rapid.IntRange(0, 2).Draw(t, "ensureOpen") == 0 {
		gen.EnsureOpenRange(t, &d, c.Env)
	}
	l := gen.Layout(t, len(d.Records))
	text, lines := model.Render(d, l)
	switch rapid.IntRange(0, 19).Draw(t, "fileClass") {
	case 0:
		text = ""
	case 1:
		c.Missing = true
		text = ""
		c.Target = rapid.SampledFrom([]string{"", "", "dir", "bookmark"}).Draw(t, "target")
	case 2:
		text = rapid.SampledFrom([]string{"\n", "  \n\t\n", " ", "\r\n\r\n"}).Draw(t, "blankFile")
	case 3, 4, 5, 6:
		fl, _, applied := applyFaults(d, l, lines, genFaults(t, 2))
		if len(applied) > 0 {
			text = model.TextOf(fl)
		}
	case 7, 8:
		text = gen.Mutate(t, text, "mut")
	}
	c.Text = model.Text(text)
	c.Cmd = gen.Cmd(t, d, c.Env, gen.CmdOpts{})
	if c.Cmd.Kind == "switch" && rapid.IntRange(0, 2).Draw(t, "failSecondStep") == 0 {
		// make the second step (start) fail after the first (stop) may have succeeded
		switch rapid.IntRange(0, 2).Draw(t, "secondStepFailure") {
		case 0:
			c.Cmd.Summary, c.Cmd.Resume, c.Cmd.ResumeNth = nil, false, rapid.SampledFrom([]int{99, -99, 7}).Draw(t, "nth")
		case 1:
			c.Cmd.Summary, c.Cmd.Resume, c.Cmd.ResumeNth = model.Texts("x"), true, 0
		default:
			c.Cmd.Summary, c.Cmd.Resume, c.Cmd.ResumeNth = nil, true, 1
		}
	}
	if c.Cmd.Kind == "track" && rapid.IntRange(0, 2).Draw(t, "badEntry") == 0 {
		c.Cmd.Entry = nil
		c.Cmd.Raw = model.Texts(rapid.SampledFrom(badEntryTexts).Draw(t, "badEntryText")...)
	}
	c.ViaMain = rapid.IntRange(0, 3).Draw(t, "viaMain") == 0
	return c
}

func checkC05(c caseC05) (Outcome, error) {
	var out Outcome
	text := string(c.Text)
	if hasUnrepresentableDuration(text) {
		out.Label("excluded:F2-unrepresentable-duration-literal")
		return out, nil
	}
	if recs, _, errs := parser.NewSerialParser().Parse(text); errs == nil && sumOverflows(recs) && !c.NoExclusions {
		// known finding F3: evaluating such a file panics (pinned by klog's own tests); the
		// warnings, which klog computes after the write, evaluate it
		out.Label("excluded:F3-total-beyond-int64")
		return out, nil
	}
	h := newHarness(envTime(c.Env), envConfig(c.Env, ""))
	defer h.Close()
	file := h.Path("f.klg")
	switch c.Target {
	case "dir":
		os.MkdirAll(file, 0o755)
	case "bookmark":
		file = "@no-such-bookmark"
	}
	old := gotime.Date(2001, 2, 3, 4, 5, 6, 0, gotime.UTC)
	if !c.Missing {
		h.WriteFile("f.klg", text)
		if err := os.Chtimes(file, old, old); err != nil {
			return out, fmt.Errorf("harness: %v", err)
		}
	}
	_, _, errsBefore := parser.NewSerialParser().Parse(text)
	var res result
	var ierr error
	crashed := func() (crashed string) {
		// a crash of the command is a failure with a non-zero exit status (Go exits with 2 on a
		// panic): what C05 asks of it is that the file is untouched
		defer func() {
			if r := recover(); r != nil {
				crashed = fmt.Sprint(r)
			}
		}()
		if c.ViaMain {
			// all-or-nothing does not depend on the clock, so the real one (which Run uses) is fine
			code, rerr, _ := h.RunMain(Argv(c.Cmd, file), len(c.Cmd.Ticks))
			if code != 0 {
				res.Err = app.NewErrorWithCode(app.Code(code), fmt.Sprint(rerr), "", nil)
			} else if rerr != nil {
				res.Err = app.NewErrorWithCode(app.Code(0), fmt.Sprint(rerr), "", nil) // an error with exit status 0: reported below
			}
			return ""
		}
		res, ierr = h.RunCmd(c.Cmd, file)
		return ""
	}()
	if c.ViaMain {
		out.Label("via-klog.Run")
	}
	if crashed != "" {
		out.Label("crash-treated-as-failure")
		after, exists := h.ReadFile("f.klg")
		if c.Missing {
			if exists && c.Target == "" {
				return out, fmt.Errorf("klog %s crashed (%s) after creating the file: %s", cmdString(c.Cmd), crashed, quoteShort(after))
			}
			return out, nil
		}
		if !exists || after != text {
			return out, fmt.Errorf("klog %s crashed (%s) after changing the file\nbefore: %s\nafter:  %s", cmdString(c.Cmd), crashed, quoteShort(text), quoteShort(after))
		}
		if st, err := os.Stat(file); err != nil || !st.ModTime().Equal(old) {
			return out, fmt.Errorf("klog %s crashed (%s) after rewriting the file (modification time changed)", cmdString(c.Cmd), crashed)
		}
		return out, nil
	}
	if ierr != nil {
		out.Label("invocation-refused-by-cli") // e.g. an entry text with a blank continuation line
		return out, nil
	}
	after, exists := h.ReadFile("f.klg")
	if res.Err == nil {
		out.Label("success:" + c.Cmd.Kind)
		if !exists {
			return out, fmt.Errorf("klog %s reported success but there is no file", cmdString(c.Cmd))
		}
		if _, _, errs := parser.NewSerialParser().Parse(after); errs != nil {
			return out, fmt.Errorf("klog %s reported success but the file has syntax errors (line %d: %s)\nbefore: %s\nafter:  %s",
				cmdString(c.Cmd), errs[0].LineNumber(), errs[0].Code(), quoteShort(text), quoteShort(after))
		}
		if c.Missing {
			out.Label("created-missing-file") // a command that creates its target is not against C05: the file parses
			return out, nil
		}
		if errsBefore != nil {
			return out, fmt.Errorf("klog %s reported success on an unparseable or missing file\nbefore: %s\nafter:  %s", cmdString(c.Cmd), quoteShort(text), quoteShort(after))
		}
		return out, nil
	}
	out.Label("failure:" + c.Cmd.Kind)
	if d := res.Err.Details(); c.Cmd.Kind == "switch" && (strings.Contains(d, "No such entry") || strings.Contains(d, "Conflicting") || strings.Contains(d, "Illegal flag")) {
		out.Label("switch-failed-in-second-step")
	}
	if res.Err.Code().ToInt() == 0 {
		return out, fmt.Errorf("klog %s failed with exit status 0", cmdString(c.Cmd))
	}
	if c.Missing {
		if exists && c.Target == "" {
			return out, fmt.Errorf("klog %s failed but created the file: %s", cmdString(c.Cmd), quoteShort(after))
		}
		out.Label("failure-on-missing-target:" + c.Target)
		out.NonTrivial = false
		return out, nil
	}
	if !exists || after != text {
		return out, fmt.Errorf("klog %s failed (%s: %s) but changed the file\nbefore: %s\nafter:  %s", cmdString(c.Cmd), res.Err.Error(), res.Err.Details(), quoteShort(text), quoteShort(after))
	}
	st, err := os.Stat(file)
	if err != nil || !st.ModTime().Equal(old) {
		return out, fmt.Errorf("klog %s failed but rewrote the file (modification time changed)", cmdString(c.Cmd))
	}
	// non-trivial: the failure arises after parsing (valid file)
	out.NonTrivial = errsBefore == nil
	if errsBefore == nil {
		out.Label("failure-on-valid-file")
	} else {
		out.Label("failure-on-invalid-file")
	}
	return out, nil
}

func TestC05(t *testing.T) {
	Run(t, Prop[caseC05]{ID: "C05", Gen: genC05, Check: checkC05})
}
