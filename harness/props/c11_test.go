package props

import (
	"fmt"
	"sort"
	"strings"
	"testing"

	"github.com/jotaen/klog/klog"
	"github.com/jotaen/klog/klog/parser"
	"pgregory.net/rapid"
	"verifharness/evid"
	"verifharness/gen"
	"verifharness/model"
)

// C11 — inserted text follows the file's own style, deterministically.

type caseC11 struct {
	Doc        model.Doc
	Layout     model.Layout
	Env        model.Env
	DateFormat string // "", "YYYY-MM-DD", "YYYY/MM/DD"
	TimeConv   string // "", "24h", "12h"
	Cmd        model.Cmd
}

func genC11(t *rapid.T, _ *evid.Rec) caseC11 {
	c := caseC11{Env: gen.Env(t, 0)}
	c.Doc = gen.StyledDoc(t, gen.Opts{MaxRecords: 5, AllowMany: true, NearDay: c.Env.NowDay, NearSpan: 4, MaxEntries: 3, TabSeparators: true})
	if rapid.IntRange(0, 2).Draw(t, "ensureOpen") == 0 {
		gen.EnsureOpenRange(t, &c.Doc, c.Env)
		// keep the dates unique
		seen := map[int]bool{}
		for i := range c.Doc.Records {
			for seen[c.Doc.Records[i].Date.Days()] {
				c.Doc.Records[i].Date = model.DateOfDays(c.Doc.Records[i].Date.Days()-1, c.Doc.Records[i].Date.Slash)
			}
			seen[c.Doc.Records[i].Date.Days()] = true
		}
	}
	if len(c.Doc.Records) >= 2 && rapid.IntRange(0, 3).Draw(t, "duplicateDate") == 0 {
		// two records share a date (the first one is the target of commands at that date)
		i := rapid.IntRange(0, len(c.Doc.Records)-2).Draw(t, "dupI")
		c.Doc.Records[i+1].Date.Y, c.Doc.Records[i+1].Date.M, c.Doc.Records[i+1].Date.D = c.Doc.Records[i].Date.Y, c.Doc.Records[i].Date.M, c.Doc.Records[i].Date.D
	}
	if rapid.IntRange(0, 5).Draw(t, "stylelessTail") == 0 && len(c.Doc.Records) > 0 {
		// a long run of records without entries after the styled ones: they exhibit no indentation,
		// clock convention, dash spacing or placeholder, so the styles must still come from the
		// records before them, however far back those are
		last := c.Doc.Records[0].Date.Days()
		for _, r := range c.Doc.Records {
			if r.Date.Days() > last {
				last = r.Date.Days()
			}
		}
		slash := c.Doc.Records[len(c.Doc.Records)-1].Date.Slash
		for i, n := 0, rapid.IntRange(12, 20).Draw(t, "tailLen"); i < n && last+1+i <= model.MaxDay; i++ {
			r := model.Record{Date: model.DateOfDays(last+1+i, slash)}
			if rapid.IntRange(0, 3).Draw(t, "tailSummary") == 0 {
				r.Summary = model.Texts("day off")
			}
			c.Doc.Records = append(c.Doc.Records, r)
		}
	}
	c.Layout = gen.Layout(t, len(c.Doc.Records))
	// styles per record: make per-record indentation and endings likely
	if rapid.Bool().Draw(t, "perRecordStyle") {
		c.Layout.Indent = nil
		for i := 0; i < len(c.Doc.Records); i++ {
			c.Layout.Indent = append(c.Layout.Indent, rapid.SampledFrom([]string{"    ", "   ", "  ", "\t"}).Draw(t, "recIndent"))
		}
		c.Layout.EOLMode = rapid.SampledFrom([]int{0, 1, 2, 2, 2}).Draw(t, "recEOLMode")
		c.Layout.EOLBits = rapid.SliceOfN(rapid.Bool(), 1, 6).Draw(t, "recEOLBits")
	}
	c.DateFormat = rapid.SampledFrom([]string{"", "", "YYYY-MM-DD", "YYYY/MM/DD"}).Draw(t, "dateFormat")
	c.TimeConv = rapid.SampledFrom([]string{"", "", "24h", "12h"}).Draw(t, "timeConv")
	c.Cmd = gen.Cmd(t, c.Doc, c.Env, gen.CmdOpts{NoPause: true})
	if c.Cmd.Kind == "pause" {
		c.Cmd.Ticks = nil
	}
	return c
}

type strSet map[string]bool

func (s strSet) keys() []string {
	var out []string
	for k := range s {
		out = append(out, fmt.Sprintf("%q", k))
	}
	sort.Strings(out)
	return out
}

// firstNonEmpty returns the first non-empty set, or {def}.
func firstNonEmpty(def string, sets ...strSet) strSet {
	for _, s := range sets {
		if len(s) > 0 {
			return s
		}
	}
	return strSet{def: true}
}

type styleFacts struct {
	indent, eol, dateSep, clock, dash, qmarks strSet
}

func newFacts() styleFacts {
	return styleFacts{strSet{}, strSet{}, strSet{}, strSet{}, strSet{}, strSet{}}
}

// factsOf collects the styles that record ri exhibits (blockOf maps lines to blocks).
func factsOf(d model.Doc, l model.Layout, lines []model.LineInfo, ri int) styleFacts {
	f := newFacts()
	r := d.Records[ri]
	if len(r.Entries) > 0 {
		f.indent[l.IndentOf(ri)] = true
	}
	n := len(d.Records)
	for _, li := range lines {
		block := li.Rec
		if li.Role == model.RoleBlank {
			block = li.Rec - 1
			if block < 0 {
				block = 0
			}
			if block >= n {
				block = n - 1
			}
		}
		if block == ri && li.EOL != "" {
			f.eol[li.EOL] = true
		}
	}
	sep := "-"
	if r.Date.Slash {
		sep = "/"
	}
	f.dateSep[sep] = true
	for _, e := range r.Entries {
		if e.Kind == model.KDuration {
			continue
		}
		f.clock[fmt.Sprint(e.Start.Is12h)] = true
		if e.Kind == model.KRange {
			f.clock[fmt.Sprint(e.End.Is12h)] = true
		}
		if e.SpacesKnown() {
			f.dash[fmt.Sprint(e.Spaces())] = true
		} else { // a lopsided dash exhibits either style
			f.dash["true"], f.dash["false"] = true, true
		}
		if e.Kind == model.KOpen {
			f.qmarks[fmt.Sprint(e.QMarks)] = true
		}
	}
	return f
}

func union(fs ...styleFacts) styleFacts {
	u := newFacts()
	for _, f := range fs {
		for k := range f.indent {
			u.indent[k] = true
		}
		for k := range f.eol {
			u.eol[k] = true
		}
		for k := range f.dateSep {
			u.dateSep[k] = true
		}
		for k := range f.clock {
			u.clock[k] = true
		}
		for k := range f.dash {
			u.dash[k] = true
		}
		for k := range f.qmarks {
			u.qmarks[k] = true
		}
	}
	return u
}

func checkC11(c caseC11) (Outcome, error) {
	var out Outcome
	text, lines := model.Render(c.Doc, c.Layout)
	cfg := ""
	if c.DateFormat != "" {
		cfg += "date_format = " + c.DateFormat + "\n"
	}
	if c.TimeConv != "" {
		cfg += "time_convention = " + c.TimeConv + "\n"
	}
	// (1) determinism: the same command on the same input, repeatedly
	const repeats = 24
	var firstAfter, firstOut string
	var firstErr string
	for k := 0; k < repeats; k++ {
		h := newHarness(envTime(c.Env), envConfig(c.Env, cfg))
		file := h.WriteFile("f.klg", text)
		res, ierr := h.RunCmd(c.Cmd, file)
		if ierr != nil {
			h.Close()
			return out, fmt.Errorf("harness: %v", ierr)
		}
		after, _ := h.ReadFile("f.klg")
		h.Close()
		errText := ""
		if res.Err != nil {
			errText = res.Err.Error() + "|" + res.Err.Details()
		}
		if k == 0 {
			firstAfter, firstOut, firstErr = after, res.Out, errText
			continue
		}
		if after != firstAfter || res.Out != firstOut || errText != firstErr {
			return out, fmt.Errorf("klog %s is not deterministic: run 1 and run %d differ\ninput:  %s\nrun 1:  %s\nrun %d: %s", cmdString(c.Cmd), k+1, quoteShort(text), quoteShort(firstAfter), k+1, quoteShort(after))
		}
	}
	if firstErr != "" {
		// A command the model accepts must not fail: the usual cause is inserted text whose style
		// does not fit the record (mixed indentation), which the safeguard re-parse then refuses.
		if _, reject, mayReject := model.Apply(c.Doc, c.Cmd, c.Env); !reject && !mayReject {
			return out, fmt.Errorf("klog %s failed (%s) although the command is valid for this file\ninput: %s", cmdString(c.Cmd), firstErr, quoteShort(text))
		}
		out.Label("command-failed")
		return out, nil
	}
	after := firstAfter
	// (4) the result is accepted by the parser
	records, _, errs := parser.NewSerialParser().Parse(after)
	if errs != nil {
		return out, fmt.Errorf("klog %s: the result does not parse (line %d: %s)\nbefore: %s\nafter:  %s", cmdString(c.Cmd), errs[0].LineNumber(), errs[0].Code(), quoteShort(text), quoteShort(after))
	}
	out.Label("ok:" + c.Cmd.Kind)
	if len(c.Doc.Records) == 0 {
		// nothing to follow: defaults
	}
	// Which record was the target? Dates are unique in this generator.
	target := -1 // index in the original document, -1 = new record
	newIndex := -1
	if len(records) == len(c.Doc.Records)+1 {
		for i := range records {
			if i >= len(c.Doc.Records) || docDay(records[i]) != c.Doc.Records[i].Date.Days() {
				newIndex = i
				break
			}
		}
		if newIndex < 0 {
			// `create` at a date that already has a record: the new record is one of several equal
			// dates; which one cannot be told from the dates alone
			out.Label("new-record-among-equal-dates")
			return out, nil
		}
		for _, r := range c.Doc.Records {
			if r.Date.Days() == docDay(records[newIndex]) {
				out.Label("new-record-among-equal-dates")
				return out, nil
			}
		}
	} else if len(records) == len(c.Doc.Records) {
		for i := range records {
			if len(records[i].Entries()) != len(c.Doc.Records[i].Entries) || (records[i].OpenRange() == nil) != (c.Doc.Records[i].OpenIndex() < 0) {
				target = i
				break
			}
		}
		if target < 0 {
			// e.g. stop with extra summary only changes text: find the record with the open range that got closed
			out.Label("no-structural-change")
			return out, nil
		}
	} else {
		return out, fmt.Errorf("unexpected number of records after the command")
	}
	var own styleFacts
	var others []styleFacts
	for i := range c.Doc.Records {
		f := factsOf(c.Doc, c.Layout, lines, i)
		if i == target {
			own = f
		} else {
			others = append(others, f)
		}
	}
	if target < 0 {
		own = newFacts()
	}
	oth := union(others...)
	// added lines: trim common prefix and suffix
	B, A := model.SplitLines(text), model.SplitLines(after)
	p := 0
	for p < len(B) && p < len(A) && B[p] == A[p] {
		p++
	}
	s := 0
	for s < len(B)-p && s < len(A)-p && B[len(B)-1-s] == A[len(A)-1-s] {
		s++
	}
	aMid := A[p : len(A)-s]
	bMid := B[p : len(B)-s]
	// lines of aMid that correspond to rewritten original lines come first (same count as bMid)
	added := aMid
	if len(bMid) <= len(aMid) {
		added = aMid[len(bMid):]
	}
	expIndent := firstNonEmpty("    ", own.indent, oth.indent)
	expEOL := firstNonEmpty("\n", own.eol, oth.eol)
	for _, ln := range added {
		if !expEOL[ln.EOL] {
			return out, fmt.Errorf("klog %s: added line %q ends with %q; the target record/file uses %v\nbefore: %s\nafter:  %s", cmdString(c.Cmd), ln.Text, ln.EOL, expEOL.keys(), quoteShort(text), quoteShort(after))
		}
		if ln.Text == "" || (ln.Text[0] != ' ' && ln.Text[0] != '\t') {
			continue
		}
		okIndent := false
		for ind := range expIndent {
			rest := strings.TrimPrefix(ln.Text, ind)
			if rest != ln.Text && rest != "" && rest[0] != ' ' && rest[0] != '\t' {
				okIndent = true // entry line at level one
			}
			if strings.HasPrefix(ln.Text, ind+ind) {
				okIndent = true // continuation line at level two (its text may start with blanks)
			}
		}
		if !okIndent {
			return out, fmt.Errorf("klog %s: added line %q is not indented with %v\nbefore: %s\nafter:  %s", cmdString(c.Cmd), ln.Text, expIndent.keys(), quoteShort(text), quoteShort(after))
		}
	}
	// (3) notation of generated dates and times
	if newIndex >= 0 {
		var exp strSet
		switch {
		case c.Cmd.DateSel == "explicit":
			exp = strSet{map[bool]string{true: "/", false: "-"}[c.Cmd.Date.Slash]: true}
		case c.DateFormat == "YYYY-MM-DD":
			exp = strSet{"-": true}
		case c.DateFormat == "YYYY/MM/DD":
			exp = strSet{"/": true}
		default:
			exp = firstNonEmpty("-", oth.dateSep)
		}
		got := "-"
		if !records[newIndex].Date().Format().UseDashes {
			got = "/"
		}
		if !exp[got] {
			return out, fmt.Errorf("klog %s: the new record's date uses %q, expected %v (date_format=%q)\nbefore: %s\nafter:  %s", cmdString(c.Cmd), got, exp.keys(), c.DateFormat, quoteShort(text), quoteShort(after))
		}
		out.Label("new-record")
	}
	ri := target
	if newIndex >= 0 {
		ri = newIndex
	}
	if c.Cmd.Kind == "start" || c.Cmd.Kind == "stop" || c.Cmd.Kind == "switch" {
		var expClock strSet
		switch {
		case c.Cmd.Time != nil:
			expClock = strSet{fmt.Sprint(c.Cmd.Time.Is12h): true}
		case c.TimeConv == "24h":
			expClock = strSet{"false": true}
		case c.TimeConv == "12h":
			expClock = strSet{"true": true}
		default:
			expClock = firstNonEmpty("false", own.clock, oth.clock)
		}
		es := records[ri].Entries()
		var written []klog.Time
		var newOpen klog.OpenRange
		if c.Cmd.Kind == "start" || c.Cmd.Kind == "switch" {
			newOpen = records[ri].OpenRange()
			if newOpen != nil {
				written = append(written, newOpen.Start())
			}
		}
		if c.Cmd.Kind == "stop" || c.Cmd.Kind == "switch" {
			oi := c.Doc.Records[target].OpenIndex()
			klog.Unbox[any](&es[oi], func(r klog.Range) any { written = append(written, r.End()); return nil },
				func(klog.Duration) any { return nil }, func(klog.OpenRange) any { return nil })
		}
		for _, w := range written {
			if !expClock[fmt.Sprint(!w.Format().Use24HourClock)] {
				return out, fmt.Errorf("klog %s: the written time %s uses 12h=%v, expected 12h in %v (time_convention=%q)\nbefore: %s\nafter:  %s", cmdString(c.Cmd), w.ToString(), !w.Format().Use24HourClock, expClock.keys(), c.TimeConv, quoteShort(text), quoteShort(after))
			}
		}
		if newOpen != nil {
			expDash := firstNonEmpty("true", own.dash, oth.dash)
			if !expDash[fmt.Sprint(newOpen.Format().UseSpacesAroundDash)] {
				return out, fmt.Errorf("klog %s: the new open range %s has spaces-around-dash=%v, expected %v\nbefore: %s\nafter:  %s", cmdString(c.Cmd), newOpen.ToString(), newOpen.Format().UseSpacesAroundDash, expDash.keys(), quoteShort(text), quoteShort(after))
			}
			expQ := firstNonEmpty("1", own.qmarks, oth.qmarks)
			if !expQ[fmt.Sprint(newOpen.Format().AdditionalPlaceholderChars+1)] {
				return out, fmt.Errorf("klog %s: the new open range %s has %d placeholder characters, expected %v\nbefore: %s\nafter:  %s", cmdString(c.Cmd), newOpen.ToString(), newOpen.Format().AdditionalPlaceholderChars+1, expQ.keys(), quoteShort(text), quoteShort(after))
			}
		}
	}
	// non-trivial: >= 2 distinct styles among the records, a tie, or a whitespace-only line next to the target
	all := union(append(others, own)...)
	distinct := len(all.indent) > 1 || len(all.eol) > 1 || len(all.dateSep) > 1 || len(all.clock) > 1 || len(all.dash) > 1
	wsBlank := false
	for _, li := range lines {
		if li.Role == model.RoleBlank && li.Text != "" {
			wsBlank = true
		}
	}
	out.NonTrivial = distinct || wsBlank
	if distinct {
		out.Label("several-styles-in-file")
	}
	if len(oth.indent) > 1 && len(own.indent) == 0 {
		out.Label("indentation-undetermined-by-target")
	}
	return out, nil
}

func docDay(r klog.Record) int {
	return model.DaysFromCivil(r.Date().Year(), r.Date().Month(), r.Date().Day())
}

func TestC11(t *testing.T) {
	Run(t, Prop[caseC11]{ID: "C11", Gen: genC11, Check: checkC11})
}
