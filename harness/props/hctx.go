package props

import (
	"fmt"
	"os"
	"path/filepath"
	"strings"
	"sync/atomic"
	gotime "time"

	"github.com/jotaen/klog/klog"
	"github.com/jotaen/klog/klog/app"
	"github.com/jotaen/klog/klog/app/cli"
	tf "github.com/jotaen/klog/klog/app/cli/terminalformat"
	"github.com/jotaen/klog/klog/app/cli/util"
	"github.com/jotaen/klog/klog/parser"
)

// harness is a scratch directory plus a scripted clock. Commands run through the real
// app.Context (real parser selection, real ReconcileFile, real file I/O); only Now() and
// Print() are overridden.
type harness struct {
	dir    string
	now    gotime.Time
	cfg    app.Config
	theme  tf.ColourTheme
	noWarn bool
	cpus   int
	inline *string // if set, ReadInputs parses this text instead of reading files
	answer *string // if set, what the user types when a command asks for confirmation
}

var scratchCounter int64

func scratchBase() string {
	for _, d := range []string{os.Getenv("VERIF_OUT"), "/dev/shm", os.TempDir()} {
		if d == "" {
			continue
		}
		if st, err := os.Stat(d); err == nil && st.IsDir() {
			return d
		}
	}
	return os.TempDir()
}

// newHarness creates a harness; configText is the content of klog's config.ini ("" = none).
func newHarness(now gotime.Time, configText string) *harness {
	return newHarnessEnv(now, configText, nil, 1)
}

func newHarnessEnv(now gotime.Time, configText string, env map[string]string, cpus int) *harness {
	n := atomic.AddInt64(&scratchCounter, 1)
	dir := filepath.Join(scratchBase(), fmt.Sprintf("klogh-%d-%d", os.Getpid(), n))
	if err := os.MkdirAll(filepath.Join(dir, "cfg"), 0o755); err != nil {
		panic("harness: " + err.Error())
	}
	// the physical path: klog makes relative arguments absolute through the working directory,
	// which the OS reports without symbolic links
	if real, err := filepath.EvalSymlinks(dir); err == nil {
		dir = real
	}
	cfg, err := app.NewConfig(
		app.FromDeterminedValues{NumCpus: cpus},
		app.FromEnvVars{GetVar: func(k string) string { return env[k] }},
		app.FromConfigFile{FileContents: configText},
	)
	if err != nil {
		panic("harness: invalid config: " + err.Error() + ": " + err.Details())
	}
	return &harness{dir: dir, now: now, cfg: cfg, theme: cfg.ColourScheme.Value(), cpus: cpus}
}

// newInlineHarness creates a harness without any files: ReadInputs parses text directly.
func newInlineHarness(now gotime.Time, text string, cpus int, theme tf.ColourTheme) *harness {
	return &harness{dir: "/nonexistent/klog-verif", now: now, cfg: app.NewDefaultConfig(theme), theme: theme, cpus: cpus, inline: &text}
}

func (h *harness) Close() { os.RemoveAll(h.dir) }

func (h *harness) Path(name string) string { return filepath.Join(h.dir, name) }

func (h *harness) WriteFile(name, content string) string {
	p := h.Path(name)
	if err := os.WriteFile(p, []byte(content), 0o644); err != nil {
		panic("harness: " + err.Error())
	}
	return p
}

func (h *harness) ReadFile(name string) (string, bool) {
	b, err := os.ReadFile(h.Path(name))
	if err != nil {
		return "", false
	}
	return string(b), true
}

type hctx struct {
	app.Context
	h   *harness
	out *strings.Builder
}

func (c *hctx) Now() gotime.Time { return c.h.now }
func (c *hctx) Print(s string)   { c.out.WriteString(s) }

// ReadLine answers a confirmation prompt with the scripted answer (the real one reads stdin).
func (c *hctx) ReadLine() (string, app.Error) {
	if c.h.answer != nil {
		return *c.h.answer, nil
	}
	return "", app.NewErrorWithCode(app.IO_ERROR, "Cannot process input", "Reading from stdin failed", nil)
}

// ReadInputs parses the inline text (if any) with the engine the real context would select.
func (c *hctx) ReadInputs(files ...app.FileOrBookmarkName) ([]klog.Record, app.Error) {
	if c.h.inline == nil {
		return c.Context.ReadInputs(files...)
	}
	p := parser.NewSerialParser()
	if c.h.cpus > 1 {
		p = parser.NewParallelParser(c.h.cpus)
	}
	records, _, errs := p.Parse(*c.h.inline)
	if len(errs) > 0 {
		return nil, app.NewParserErrors(errs)
	}
	return records, nil
}

// Ctx builds a fresh context (a fresh "process").
func (h *harness) Ctx() *hctx {
	folder := app.NewFileOrPanic(filepath.Join(h.dir, "cfg"))
	inner := app.NewContext(folder, app.Meta{Version: "verif"}, tf.NewStyler(h.theme), h.cfg)
	return &hctx{Context: inner, h: h, out: &strings.Builder{}}
}

type result struct {
	Out string
	Err app.Error
}

func (r result) Code() int {
	if r.Err == nil {
		return 0
	}
	return r.Err.Code().ToInt()
}

// Run executes a command's Run method on a fresh context.
func (h *harness) Run(cmd interface{ Run(app.Context) app.Error }) result {
	ctx := h.Ctx()
	err := cmd.Run(ctx)
	return result{ctx.out.String(), err}
}

func fileArgs(files []string) []app.FileOrBookmarkName {
	var out []app.FileOrBookmarkName
	for _, f := range files {
		out = append(out, app.FileOrBookmarkName(f))
	}
	return out
}

func (h *harness) RunTotal(files []string, diff, now, decimal bool) result {
	return h.Run(&cli.Total{
		DiffArgs:       util.DiffArgs{Diff: diff},
		NowArgs:        util.NowArgs{Now: now},
		DecimalArgs:    util.DecimalArgs{Decimal: decimal},
		WarnArgs:       util.WarnArgs{NoWarn: true},
		NoStyleArgs:    util.NoStyleArgs{NoStyle: true},
		InputFilesArgs: util.InputFilesArgs{File: fileArgs(files)},
	})
}

func (h *harness) RunPrint(files []string, withTotals bool, noStyle bool, filter util.FilterArgs, sort string) result {
	return h.Run(&cli.Print{
		WithTotals:     withTotals,
		FilterArgs:     filter,
		SortArgs:       util.SortArgs{Sort: sort},
		WarnArgs:       util.WarnArgs{NoWarn: true},
		NoStyleArgs:    util.NoStyleArgs{NoStyle: noStyle},
		InputFilesArgs: util.InputFilesArgs{File: fileArgs(files)},
	})
}

func (h *harness) RunJson(files []string, pretty bool, now bool, filter util.FilterArgs, sort string) result {
	return h.Run(&cli.Json{
		Pretty:         pretty,
		NowArgs:        util.NowArgs{Now: now},
		FilterArgs:     filter,
		SortArgs:       util.SortArgs{Sort: sort},
		InputFilesArgs: util.InputFilesArgs{File: fileArgs(files)},
	})
}

var _ = klog.NewDate
