package props

import (
	"fmt"
	"strings"
	"testing"

	"github.com/jotaen/klog/klog"
	"github.com/jotaen/klog/klog/parser"
	"verifharness/evid"
	"verifharness/model"
)

// C17 — clock-relative behaviour is right at every minute of the day.

type caseC17 struct {
	Day       int    // index into c17Days
	Min       int    // minute of the day of the clock
	Round     int    // 0 = none
	ViaConfig bool   // rounding through default_rounding instead of --round
	DateSel   string // "", today, yesterday, tomorrow, explicit-today, explicit-yesterday, explicit-tomorrow
	Layout    int
	Op        string // start, stop, switch, total-now
}

var c17Days = []int{
	model.DaysFromCivil(2023, 6, 14),  // ordinary day
	model.DaysFromCivil(2023, 1, 31),  // month end
	model.DaysFromCivil(2023, 12, 31), // year end
	model.DaysFromCivil(2024, 2, 29),  // leap day
	model.DaysFromCivil(2024, 3, 1),   // day after a leap day
	model.DaysFromCivil(2024, 1, 1),   // new year
}
var c17Roundings = []int{0, 5, 10, 12, 15, 20, 30, 60}
var c17DateSels = []string{"", "today", "yesterday", "tomorrow", "explicit-today", "explicit-yesterday", "explicit-tomorrow"}
var c17Ops = []string{"start", "stop", "switch", "total-now"}

const c17Layouts = 7

func mkTime(off int) model.Time { return model.Time{Off: off, Lit: model.CanonTime(off, false)} }

func recAt(day int, entries ...model.Entry) model.Record {
	return model.Record{Date: model.DateOfDays(day, false), Entries: entries}
}

func openEntry(off int) model.Entry {
	return model.Entry{Kind: model.KOpen, Start: mkTime(off), DashL: " ", DashR: " ", QMarks: 1, Summary: model.Texts("")}
}

func durEntry(mins int) model.Entry {
	return model.Entry{Kind: model.KDuration, Dur: model.Duration{Mins: mins, Lit: model.CanonDuration(mins, false, 0)}, Summary: model.Texts("x")}
}

// c17Doc builds the record layout relative to the target day T.
func c17Doc(layout int, T int) model.Doc {
	switch layout {
	case 1:
		return model.Doc{Records: []model.Record{recAt(T, durEntry(60))}}
	case 2:
		return model.Doc{Records: []model.Record{recAt(T, durEntry(30), openEntry(-720))}}
	case 3:
		return model.Doc{Records: []model.Record{recAt(T-1, openEntry(600))}}
	case 4:
		return model.Doc{Records: []model.Record{recAt(T-2, openEntry(600))}}
	case 5:
		return model.Doc{Records: []model.Record{recAt(T-1, openEntry(1380)), recAt(T, durEntry(15))}}
	case 6:
		return model.Doc{Records: []model.Record{recAt(T-1, openEntry(700)), recAt(T, openEntry(725), durEntry(5))}}
	}
	return model.Doc{}
}

// c17TotalDoc builds layouts for `total --now`, relative to today.
func c17TotalDoc(layout int, today int) model.Doc {
	switch layout {
	case 1:
		return model.Doc{Records: []model.Record{recAt(today, durEntry(60), openEntry(-720))}}
	case 2:
		return model.Doc{Records: []model.Record{recAt(today-1, openEntry(1080), durEntry(-10))}}
	case 3:
		return model.Doc{Records: []model.Record{recAt(today-2, openEntry(600)), recAt(today, durEntry(5))}}
	case 4:
		return model.Doc{Records: []model.Record{recAt(today+1, openEntry(-100))}}
	case 5:
		return model.Doc{Records: []model.Record{recAt(today, openEntry(720))}}
	case 6:
		return model.Doc{Records: []model.Record{recAt(today-1, openEntry(2000)), recAt(today, openEntry(0), durEntry(7))}}
	}
	return model.Doc{Records: []model.Record{recAt(today, durEntry(60))}}
}

var c17Harness = map[string]*harness{}

func c17GetHarness(env model.Env) *harness {
	cfg := envConfig(env, "")
	h, ok := c17Harness[cfg]
	if !ok {
		h = newHarness(envTime(env), cfg)
		c17Harness[cfg] = h
	}
	h.now = envTime(env)
	return h
}

func checkC17(c caseC17) (Outcome, error) {
	var out Outcome
	today := c17Days[c.Day%len(c17Days)]
	env := model.Env{NowDay: today, NowSec: c.Min * 60} // seconds 0: whether klog truncates or rounds the seconds is not specified
	if c.ViaConfig {
		env.DefaultRound = c.Round
	}
	h := c17GetHarness(env)
	if c.Op == "total-now" {
		doc := c17TotalDoc(c.Layout, today)
		text, _ := model.Render(doc, model.Layout{FinalEOL: true})
		file := h.WriteFile("t.klg", text)
		res := h.RunTotal([]string{file}, false, true, true)
		extra, closable, _ := refClose(doc, today, c.Min)
		if !closable {
			if res.Err == nil {
				return out, fmt.Errorf("total --now at %s succeeded although an open range cannot be closed now\nfile: %s\noutput: %s", envString(env), quoteShort(text), quoteShort(res.Out))
			}
			out.NonTrivial = true
			out.Label("total-now-refused")
			return out, nil
		}
		if res.Err != nil {
			return out, fmt.Errorf("total --now at %s failed: %s\nfile: %s", envString(env), res.Err.Error(), quoteShort(text))
		}
		// the `Total: N` line, wherever blank framing lines put it
		got, found := 0, false
		for _, line := range strings.Split(res.Out, "\n") {
			if _, err := fmt.Sscanf(line, "Total: %d", &got); err == nil {
				found = true
				break
			}
		}
		if !found {
			return out, fmt.Errorf("cannot read the output of total --now: %s", quoteShort(res.Out))
		}
		if got != doc.Total()+extra {
			return out, fmt.Errorf("total --now at %s = %d, expected %d (entries %d + open ranges until now %d)\nfile: %s", envString(env), got, doc.Total()+extra, doc.Total(), extra, quoteShort(text))
		}
		out.NonTrivial = extra != 0
		out.Label("total-now")
		return out, nil
	}
	cmd := model.Cmd{Kind: c.Op}
	if !c.ViaConfig {
		cmd.Round = c.Round
	}
	delta := 0
	switch c.DateSel {
	case "today":
		cmd.DateSel = "today"
	case "yesterday":
		cmd.DateSel, delta = "yesterday", -1
	case "tomorrow":
		cmd.DateSel, delta = "tomorrow", 1
	case "explicit-today":
		cmd.DateSel, cmd.Date = "explicit", model.DateOfDays(today, false)
	case "explicit-yesterday":
		cmd.DateSel, cmd.Date, delta = "explicit", model.DateOfDays(today-1, false), -1
	case "explicit-tomorrow":
		cmd.DateSel, cmd.Date, delta = "explicit", model.DateOfDays(today+1, false), 1
	}
	T := today + delta
	doc := c17Doc(c.Layout, T)
	text, _ := model.Render(doc, model.Layout{FinalEOL: true})
	file := h.WriteFile("f.klg", text)
	res, ierr := h.RunCmd(cmd, file)
	if ierr != nil {
		return out, fmt.Errorf("harness: %v", ierr)
	}
	after, _ := h.ReadFile("f.klg")
	results, reject, mayReject := model.Apply(doc, cmd, env)
	where := func() string {
		return fmt.Sprintf("klog %s at %s (config rounding %d)\nbefore: %s\nafter:  %s", cmdString(cmd), envString(env), env.DefaultRound, quoteShort(text), quoteShort(after))
	}
	if res.Err != nil {
		if after != text {
			return out, fmt.Errorf("the command failed but changed the file\n%s", where())
		}
		if !reject && !mayReject {
			return out, fmt.Errorf("the command failed (%s: %s) although the required time is representable and a record/open range is eligible\n%s", res.Err.Error(), res.Err.Details(), where())
		}
		out.Label("refused:" + c.Op)
		out.NonTrivial = true
		return out, nil
	}
	if model.Unspecified {
		// e.g. switch when only yesterday's record has an open range: C17 promises the fallback
		// for stop and is silent about switch; the written time must still parse
		if _, _, errs := parser.NewSerialParser().Parse(after); errs != nil {
			return out, fmt.Errorf("the result does not parse\n%s", where())
		}
		out.Label("unspecified:" + c.Op)
		return out, nil
	}
	if reject {
		return out, fmt.Errorf("the command succeeded although it must be refused (unrepresentable time, no eligible record/open range, or end before start)\n%s", where())
	}
	records, _, errs := parser.NewSerialParser().Parse(after)
	if errs != nil {
		return out, fmt.Errorf("the result does not parse\n%s", where())
	}
	matched := false
	var firstErr error
	for _, cand := range results {
		if err := looseCompare(cand, records); err == nil {
			matched = true
			break
		} else if firstErr == nil {
			firstErr = err
		}
	}
	if !matched {
		return out, fmt.Errorf("wrong result: %v\n%s", firstErr, where())
	}
	// Absolute-instant formulation, independent of the command model: the written time, taken
	// relative to its record's date, is the rounded current time.
	r := cmd.Round
	if r == 0 {
		r = env.DefaultRound
	}
	R := model.RoundNearest(c.Min, r)
	instant := today*1440 + R
	foundToday := true
	check := func(rec klog.Record, t klog.Time, what string) error {
		abs := docDay(rec)*1440 + t.MidnightOffset().InMinutes()
		if abs != instant {
			return fmt.Errorf("%s %s in record %s denotes minute %d, the rounded current time is minute %d\n%s", what, t.ToString(), rec.Date().ToString(), abs-today*1440, R, where())
		}
		if docDay(rec) != today {
			foundToday = false
		}
		return nil
	}
	// locate what was written: compare with the original document
	for ri, rec := range records {
		var orig *model.Record
		for k := range doc.Records {
			if doc.Records[k].Date.Days() == docDay(rec) {
				orig = &doc.Records[k]
			}
		}
		for ei, e := range rec.Entries() {
			_ = ri
			isNew := orig == nil || ei >= len(orig.Entries)
			var err error
			klog.Unbox[any](&e, func(rg klog.Range) any {
				if !isNew && orig.Entries[ei].Kind == model.KOpen {
					err = check(rec, rg.End(), "end time")
				}
				return nil
			}, func(klog.Duration) any { return nil }, func(o klog.OpenRange) any {
				if isNew {
					err = check(rec, o.Start(), "start time")
				}
				return nil
			})
			if err != nil {
				return out, err
			}
		}
	}
	out.Label("ok:" + c.Op)
	out.NonTrivial = !foundToday || (R != c.Min && R/60 != c.Min/60)
	return out, nil
}

func c17Minutes(quick bool) []int {
	var ms []int
	for m := 0; m < 1440; m++ {
		if !quick || m <= 40 || (m >= 700 && m <= 740) || m >= 1400 || m%7 == 0 {
			ms = append(ms, m)
		}
	}
	return ms
}

func eachC17(shard, shards int, ev *evid.Rec, emit func(caseC17) bool) {
	quick := !thorough()
	mins := c17Minutes(quick)
	idx := 0
	days := len(c17Days)
	for _, m := range mins {
		for di := 0; di < days; di++ {
			if quick && di != m%days {
				continue
			}
			for _, r := range c17Roundings {
				for _, viaCfg := range []bool{false, true} {
					if viaCfg && (r == 0 || (quick && r != 15 && r != 60)) {
						continue
					}
					for _, ds := range c17DateSels {
						for l := 0; l < c17Layouts; l++ {
							for _, op := range c17Ops {
								if op == "total-now" && (ds != "" || r != 0) {
									continue
								}
								idx++
								if idx%shards != shard {
									continue
								}
								if !emit(caseC17{Day: di, Min: m, Round: r, ViaConfig: viaCfg, DateSel: ds, Layout: l, Op: op}) {
									return
								}
							}
						}
					}
				}
			}
		}
	}
	ev.SetExhaustive(true)
	ev.Note(fmt.Sprintf("enumerated %d minutes x %d calendar days (quick: one day per minute) x roundings x date selections x %d layouts x %d operations", len(mins), days, c17Layouts, len(c17Ops)))
}

func TestC17(t *testing.T) {
	defer func() {
		for _, h := range c17Harness {
			h.Close()
		}
	}()
	RunEnum(t, Enum[caseC17]{ID: "C17", Check: checkC17, Each: eachC17})
}
